package operators

import (
	"os"
	"path/filepath"
	"testing"

	"github.com/corazawaf/coraza/v3/experimental/plugins/plugintypes"
	"github.com/corazawaf/coraza/v3/internal/io"
)

type nil3 struct{ plugintypes.TransactionState }

func (nil3) Capturing() bool { return false }

func TestZPMFromFileUnicodeLower(t *testing.T) {
	phrase := "İ" // U+0130, the listed phrase
	dir := t.TempDir()
	if err := os.WriteFile(filepath.Join(dir, "p.txt"), []byte("# c\n\n  "+phrase+"  \n"), 0o600); err != nil {
		t.Fatal(err)
	}
	op, err := newPMFromFile(plugintypes.OperatorOptions{Arguments: "p.txt", Path: []string{dir}, Root: io.OSFS{}})
	if err != nil {
		t.Fatal(err)
	}
	if !op.Evaluate(nil3{}, "x"+phrase) {
		t.Errorf("pmFromFile: value %q contains the listed phrase %q but the operator says false (minLen=%d)", "x"+phrase, phrase, op.(*pm).minLen)
	}
}
