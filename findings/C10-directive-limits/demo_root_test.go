package coraza

import (
	"strings"
	"testing"

	"github.com/corazawaf/coraza/v3/types"
)

// The coercion of NewWAF holds whatever the order of the directives / WithDirectives calls (post/detectionOnlyRequest).
func TestZWafcfgCoercionOrder(t *testing.T) {
	for _, d := range []string{
		"SecRuleEngine DetectionOnly\nSecRequestBodyLimitAction Reject\nSecResponseBodyLimitAction Reject",
		"SecRequestBodyLimitAction Reject\nSecResponseBodyLimitAction Reject\nSecRuleEngine On\nSecRuleEngine DetectionOnly",
	} {
		cfg := NewWAFConfig().WithDirectives(d).WithDirectives("SecRequestBodyLimitAction Reject")
		w, err := NewWAF(cfg)
		if err != nil {
			t.Fatal(err)
		}
		iw := w.(wafWrapper).waf
		if iw.RuleEngine != types.RuleEngineDetectionOnly || iw.RequestBodyLimitAction != types.BodyLimitActionProcessPartial || iw.ResponseBodyLimitAction != types.BodyLimitActionProcessPartial {
			t.Errorf("not coerced: %v %v %v", iw.RuleEngine, iw.RequestBodyLimitAction, iw.ResponseBodyLimitAction)
		}
	}
}

// A LATER change of the engine mode defeats it: the WAF-wide mode is On when NewWAF runs (no coercion), a rule switches
// the transaction to DetectionOnly by ctl, the body over the limit is still rejected with 413.
func TestZWafcfgCtlDetectionOnlyStillRejects(t *testing.T) {
	cfg := NewWAFConfig().WithDirectives(`
SecRuleEngine On
SecRequestBodyAccess On
SecRequestBodyLimit 4
SecRequestBodyLimitAction Reject
SecAction "id:1,phase:1,pass,nolog,ctl:ruleEngine=DetectionOnly"
`)
	w, err := NewWAF(cfg)
	if err != nil {
		t.Fatal(err)
	}
	tx := w.NewTransaction()
	defer tx.Close()
	tx.ProcessURI("/", "POST", "HTTP/1.1")
	tx.AddRequestHeader("Content-Type", "application/x-www-form-urlencoded")
	if it := tx.ProcessRequestHeaders(); it != nil {
		t.Fatalf("unexpected interruption in phase 1: %+v", it)
	}
	it, _, err := tx.ReadRequestBodyFrom(strings.NewReader("a=1234567890"))
	if err != nil {
		t.Fatal(err)
	}
	if it != nil {
		t.Errorf("DetectionOnly transaction (ctl) interrupted by the body limit: status %d action %s", it.Status, it.Action)
	}
}

// The converse side effect: the WAF-wide coercion stays when a rule switches the transaction back to On.
func TestZWafcfgCtlOnKeepsProcessPartial(t *testing.T) {
	cfg := NewWAFConfig().WithDirectives(`
SecRuleEngine DetectionOnly
SecRequestBodyAccess On
SecRequestBodyLimit 4
SecRequestBodyLimitAction Reject
SecAction "id:1,phase:1,pass,nolog,ctl:ruleEngine=On"
`)
	w, err := NewWAF(cfg)
	if err != nil {
		t.Fatal(err)
	}
	tx := w.NewTransaction()
	defer tx.Close()
	tx.ProcessURI("/", "POST", "HTTP/1.1")
	tx.AddRequestHeader("Content-Type", "application/x-www-form-urlencoded")
	tx.ProcessRequestHeaders()
	it, _, _ := tx.ReadRequestBodyFrom(strings.NewReader("a=1234567890"))
	if it == nil {
		t.Errorf("engine On (ctl) + SecRequestBodyLimitAction Reject: body over the limit not rejected (WAF-wide action was coerced to ProcessPartial)")
	}
}
