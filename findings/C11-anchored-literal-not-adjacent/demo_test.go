package coraza

import "testing"

// C11: SecRxPreFilter On must not change what @rx matches. A literal required by a start/end-anchored pattern was
// demanded AT the anchor even when something else sits between the anchor and the literal.
func TestC11AnchoredLiteralNotAdjacent(t *testing.T) {
	cases := []struct{ pattern, value string }{
		{`\A\d+hello`, "123hello"},
		{`\Ax?hello`, "xhello"},
		{`hello\d+\z`, "hello123"},
		{`hello(?:foo)?\z`, "hellofoo"},
	}
	for _, c := range cases {
		verdict := func(pre string) bool {
			waf, err := NewWAF(NewWAFConfig().WithDirectives("SecRuleEngine On\nSecRxPreFilter " + pre + "\n" +
				`SecRule ARGS:a "@rx ` + c.pattern + `" "id:1,phase:1,deny,status:403"` + "\n"))
			if err != nil {
				t.Fatal(err)
			}
			tx := waf.NewTransaction()
			defer tx.Close()
			tx.AddGetRequestArgument("a", c.value)
			return tx.ProcessRequestHeaders() != nil
		}
		if off, on := verdict("Off"), verdict("On"); off != on {
			t.Errorf("@rx %s on %q: prefilter Off -> match=%v, prefilter On -> match=%v", c.pattern, c.value, off, on)
		}
	}
}
