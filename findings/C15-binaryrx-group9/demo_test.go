package operators

import (
	"testing"

	"github.com/corazawaf/coraza/v3/experimental/plugins/plugintypes"
)

type capTx struct {
	plugintypes.TransactionState
	got map[int]string
}

func (c *capTx) Capturing() bool                { return true }
func (c *capTx) CaptureField(i int, v string) { c.got[i] = v }

func TestZBinaryRXGroup9(t *testing.T) {
	// \xff makes newRX choose the binary regexp; nine groups + the whole match = TX.0 .. TX.9
	op, err := newRX(plugintypes.OperatorOptions{Arguments: `\xff(a)(b)(c)(d)(e)(f)(g)(h)(i)`})
	if err != nil {
		t.Fatal(err)
	}
	if _, ok := op.(*binaryRX); !ok {
		t.Fatalf("not binaryRX: %T", op)
	}
	tx := &capTx{got: map[int]string{}}
	if !op.Evaluate(tx, "\xffabcdefghi") {
		t.Fatal("no match")
	}
	if len(tx.got) != 10 || tx.got[9] != "i" {
		t.Errorf("stored %d captures, TX.9=%q; want 10 captures (TX.0-9), TX.9=\"i\"", len(tx.got), tx.got[9])
	}
}
