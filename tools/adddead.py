#!/usr/bin/env python3
"""usage: adddead.py <obligation name> : records a cover-return probe that is genuinely dead code (verified by hand) as
not claimed in every baseline (a baseline written under load can miss it: the probe times out there and is refuted later)."""
import json,glob,sys
name=sys.argv[1]
for f in sorted(glob.glob('/verif/baseline/C*.json')):
    b=json.load(open(f))
    if name not in b['unproved']:
        b['unproved'].append(name); b['unproved'].sort()
        json.dump(b,open(f,'w'),indent=1)
print('added to all baselines:',name)
