package main

import (
	"fmt"
	"go/types"
	"sort"
	"strings"

	"golang.org/x/tools/go/ssa"
)

// Interface refinement. A trusted contract `iface:I.M` written over abstraction functions f(<state token>, recv) is an
// assumption about every implementation of I. For an in-repo implementation T a `refines` declaration gives the
// abstraction functions a meaning over T's fields; expandRefinements then creates, for every method M of I that has an
// interface contract, a variant unit "(T).M@I" checked on the real body of T.M: the requires / loop invariants /
// modifies of T.M's own unit (if any), and as postconditions the interface contract's ensures with
//   f(state, recv)      -> EXPR[self := receiver]
//   f(old(state), recv) -> old(EXPR[self := receiver])
//   recv -> receiver, interface parameter names -> the implementation's parameter names (by position).
// What stays assumed: the interface contract's frame (`modifies`), and that T.M's own preconditions hold at interface
// call sites (object invariants of T).

func mapExpr(e Expr, f func(Expr) (Expr, bool)) Expr {
	if e == nil {
		return nil
	}
	if r, done := f(e); done {
		return r
	}
	switch x := e.(type) {
	case EUnary:
		return EUnary{x.Op, mapExpr(x.X, f)}
	case EBinary:
		return EBinary{x.Op, mapExpr(x.L, f), mapExpr(x.R, f)}
	case ESel:
		return ESel{mapExpr(x.X, f), x.Field}
	case EIndex:
		return EIndex{mapExpr(x.X, f), mapExpr(x.I, f)}
	case ESlice:
		return ESlice{mapExpr(x.X, f), mapExpr(x.Lo, f), mapExpr(x.Hi, f)}
	case ECall:
		var as []Expr
		for _, a := range x.Args {
			as = append(as, mapExpr(a, f))
		}
		return ECall{x.Fn, as}
	case EQuant:
		return EQuant{x.Forall, x.Vars, mapExpr(x.Body, f)}
	case EOld:
		return EOld{mapExpr(x.X, f)}
	}
	return e
}

func (g *Global) expandRefinements() error {
	for _, rs := range g.C.Refines {
		// the interface type
		var ipkg *types.Package
		for _, p := range g.prog.AllPackages() {
			if p.Pkg.Path() == rs.IfacePkg {
				ipkg = p.Pkg
			}
		}
		if ipkg == nil {
			return fmt.Errorf("%s:%d: refines: unknown package %s", rs.File, rs.Line, rs.IfacePkg)
		}
		obj := ipkg.Scope().Lookup(rs.Iface)
		if obj == nil {
			return fmt.Errorf("%s:%d: refines: unknown interface %s", rs.File, rs.Line, rs.Iface)
		}
		it, ok := obj.Type().Underlying().(*types.Interface)
		if !ok {
			return fmt.Errorf("%s:%d: refines: %s is not an interface", rs.File, rs.Line, rs.Iface)
		}
		isState := map[string]bool{}
		for _, s := range rs.State {
			isState[s] = true
		}
		prefix := rs.IfacePkg + "::iface:" + rs.Iface + "."
		var keys []string
		for k := range g.C.Units {
			if strings.HasPrefix(k, prefix) {
				keys = append(keys, k)
			}
		}
		sort.Strings(keys)
		n := 0
		for _, k := range keys {
			iu := g.C.Units[k]
			m := strings.TrimPrefix(k, prefix)
			if rs.Except[m] || len(iu.Ensures) == 0 {
				continue
			}
			implKey := rs.Pkg + "::(" + rs.Recv + ")." + m
			fn := g.fnByKey[implKey]
			if fn == nil {
				return fmt.Errorf("%s:%d: refines: %s has no method %s (needed for %s)", rs.File, rs.Line, rs.Recv, m, k)
			}
			var isig *types.Signature
			for i := 0; i < it.NumMethods(); i++ {
				if it.Method(i).Name() == m {
					isig = it.Method(i).Type().(*types.Signature)
				}
			}
			if isig == nil {
				return fmt.Errorf("%s:%d: refines: interface %s has no method %s", rs.File, rs.Line, rs.Iface, m)
			}
			if len(fn.Params) != isig.Params().Len()+1 {
				return fmt.Errorf("%s:%d: refines: arity of %s", rs.File, rs.Line, implKey)
			}
			rename := map[string]string{"recv": fn.Params[0].Name()}
			for i := 0; i < isig.Params().Len(); i++ {
				in := isig.Params().At(i).Name()
				if in == "" || in == "_" {
					in = fmt.Sprintf("arg%d", i)
				}
				rename[in] = fn.Params[i+1].Name()
				rename[fmt.Sprintf("arg%d", i)] = fn.Params[i+1].Name()
			}
			var rerr error
			var rw func(e Expr) (Expr, bool)
			rw = func(e Expr) (Expr, bool) {
				switch x := e.(type) {
				case EIdent:
					if nn, ok := rename[x.Name]; ok {
						return EIdent{nn}, true
					}
				case EQuant:
					// bound variables shadow parameter names
					saved := map[string]string{}
					for _, b := range x.Vars {
						if v, ok := rename[b.Name]; ok {
							saved[b.Name] = v
							delete(rename, b.Name)
						}
					}
					body := mapExpr(x.Body, rw)
					for k, v := range saved {
						rename[k] = v
					}
					return EQuant{x.Forall, x.Vars, body}, true
				case ECall:
					body, isAbs := rs.Abstr[x.Fn]
					if !isAbs {
						return nil, false
					}
					aps := rs.AbstrParams[x.Fn]
					if len(x.Args) != 2+len(aps) {
						rerr = fmt.Errorf("abstraction function %s must be applied to (state, recv%s)", x.Fn, strings.Join(append([]string{""}, aps...), ", "))
						return e, true
					}
					bind := map[string]Expr{"self": mapExpr(x.Args[1], rw)}
					for i, p := range aps {
						bind[p] = mapExpr(x.Args[2+i], rw)
					}
					inst := mapExpr(body, func(e Expr) (Expr, bool) {
						if id, ok := e.(EIdent); ok {
							if b, ok := bind[id.Name]; ok {
								return b, true
							}
						}
						return nil, false
					})
					switch v := x.Args[0].(type) {
					case EIdent:
						if isState[v.Name] {
							return inst, true
						}
					case EOld:
						if id, ok := v.X.(EIdent); ok && isState[id.Name] {
							return EOld{inst}, true
						}
					}
					rerr = fmt.Errorf("abstraction function %s applied to an unsupported state expression %s", x.Fn, x.Args[0])
					return e, true
				}
				return nil, false
			}
			vu := &Unit{Pkg: rs.Pkg, Func: "(" + rs.Recv + ")." + m + "@" + rs.Iface, Props: append([]string{}, rs.Props...),
				Loops: map[int]*LoopSpec{}, Opts: map[string]bool{"nosafety": true, "refinement": true}, File: rs.File, Line: rs.Line, FnKey: implKey}
			if pu := g.C.Units[implKey]; pu != nil && !pu.Trusted {
				vu.Requires = pu.Requires
				vu.Modifies, vu.HasMod, vu.ModInferred = pu.Modifies, pu.HasMod, pu.ModInferred
				vu.Loops = pu.Loops
				for o := range pu.Opts {
					if o != "sweep" && o != "infer" {
						vu.Opts[o] = true
					}
				}
			}
			for i, c := range iu.Ensures {
				if strings.HasPrefix(c.Name, "def_") {
					continue // definitional ghost effect of the interface call (e.g. a call counter): nothing to prove
				}
				ne := mapExpr(c.E, rw)
				if rerr != nil {
					return fmt.Errorf("%s:%d: refines %s: %v", rs.File, rs.Line, k, rerr)
				}
				name := c.Name
				if name == "" {
					name = fmt.Sprintf("e%d", i+1)
				}
				vu.Ensures = append(vu.Ensures, Clause{Text: ne.String(), E: ne, Name: "iface_" + name})
			}
			if len(vu.Ensures) == 0 {
				continue
			}
			g.C.Units[unitKey(vu.Pkg, vu.Func)] = vu
			g.C.Scan = append(g.C.Scan, fmt.Sprintf("refinement: the ensures of the trusted interface contract %s are proved on %s (variant unit %s); its frame and the implementation's own preconditions at interface call sites stay assumed", k, implKey, vu.Func))
			n++
		}
		if n == 0 {
			return fmt.Errorf("%s:%d: refines %s::%s: no interface contract with ensures found", rs.File, rs.Line, rs.IfacePkg, rs.Iface)
		}
	}
	return nil
}

var _ = ssa.BuilderMode(0)
