#!/bin/bash
# usage: tools/seedmatrix.sh [seed-dir-name ...]   runs every stored seeded change against the registered check of its
# property (scratch copy of /repo's HEAD + patch), records the outcome in out/seedmatrix.tsv and in the seed's meta.json.
set -u
cd /verif
seeds=("$@"); [ ${#seeds[@]} -eq 0 ] && seeds=($(ls seeded))
mkdir -p out; : > out/seedmatrix.tsv
for sd in "${seeds[@]}"; do
  prop=${sd%%-*}
  s=$(mktemp -d /tmp/seedrun.XXXXXX)
  mkdir "$s/repo"; (cd /repo && git archive HEAD) | tar -x -C "$s/repo"
  if ! (cd "$s/repo" && git apply "/verif/seeded/$sd/patch.diff" 2>/dev/null || patch -p1 -s < "/verif/seeded/$sd/patch.diff"); then echo -e "$sd\tPATCH-DOES-NOT-APPLY" | tee -a out/seedmatrix.tsv; rm -rf "$s"; continue; fi
  props="$prop"; extra=$(python3 -c "import json;print(' '.join(json.load(open('/verif/seeded/$sd/meta.json')).get('also_check',[])))")
  res="missed"; first=""
  for p in $props $extra; do
    out=$(GOVC_REPO="$s/repo" GOVC_EVIDENCE_DIR="$s/ev" GOVC_REPLAY_DIR="$s/replay" ./bin/govc check --property "$p" --tier quick 2>&1)
    if echo "$out" | grep -q "^VIOLATION property=$p "; then res="detected"; first="$p: $(echo "$out" | grep '^VIOLATION' | head -3 | sed 's/.*replay=[^ ]*\///' | tr '\n' ' ')"; break; fi
  done
  echo -e "$sd\t$res\t$first" | tee -a out/seedmatrix.tsv
  python3 - "$sd" "$res" "$first" <<'PY'
import json,sys
sd,res,first=sys.argv[1:4]
p='/verif/seeded/%s/meta.json'%sd
d=json.load(open(p))
d['detected_by']={"check":"./bin/govc check --property <id> --tier quick on a copy of /repo with the patch applied (tools/seedmatrix.sh)","result":res,"first_violations":first}
json.dump(d,open(p,'w'),indent=1)
PY
  rm -rf "$s"
done
echo "detected: $(grep -c detected out/seedmatrix.tsv) of $(wc -l < out/seedmatrix.tsv)"
