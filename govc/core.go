package main

import (
	"fmt"
	"go/ast"
	"go/types"
	"os"
	"regexp"
	"sort"
	"strings"
	"sync"

	"golang.org/x/tools/go/ssa"
)

// Val is the generator-level representation of a Go value.
type Val struct {
	T      types.Type
	S      string          // SMT term for scalar sorts
	Fields map[string]*Val // struct values and tuples
	Order  []string        // field order for Fields
	Addr   *Addr           // for pointers to non-struct cells (symbolic address)
}

// Addr is a symbolic address of a non-struct cell (or of an array cell).
type Addr struct {
	Kind   string // field | elem | cell | local | global | arrelem
	Key    string // state key
	Obj    string // Ref term (field, cell)
	Base   string // elem: backing-array ref
	Idx    string // elem / arrelem: index term
	Parent *Addr  // arrelem: address of the array value
	Const  string // global: known constant value (init-only global)
	Elem   types.Type
}

// State is the symbolic store at a program point.
type State struct {
	m  map[string]string // state key -> SMT term (missing = entry symbol)
	pc string            // path condition (name of a defined Bool, or a term)
	// dflt: suffix of the symbol a key that is not in m denotes. "" = the entry symbol; after a call with
	// unknown effects ("whole heap havocked") a fresh suffix, so that keys first mentioned LATER are havocked too.
	dflt string
}

func (s *State) clone() *State {
	n := &State{m: make(map[string]string, len(s.m)), pc: s.pc, dflt: s.dflt}
	for k, v := range s.m {
		n.m[k] = v
	}
	return n
}

type Obligation struct {
	Name      string
	Class     string
	Unit      *Unit
	Fn        string
	Pos       string
	Text      string // human readable goal
	PC        string
	Goal      string
	DefsEnd   int // number of defs visible
	vc        *FnVC
	Result    SolverResult
	Status    string // discharged | failed | undecided
	Cover     bool   // vacuity cover query: must be SAT
	Candidate string
	Rets      []*Val // post obligations: the values returned on this path
	Static    bool   // decided by the effect (write-set) inference, not by a solver; Status/Result are pre-set
	Raw       string // complete SMT script (obligations not generated from a function body); unsat = discharged
}

// KeyInfo describes one state key.
type KeyInfo struct {
	Name   string
	Sort   string
	Kind   string // field cell mem global local ghost alloc mapdom mapval maplen iter
	GoType string // field, global: the Go type of the stored value
	Ref    bool   // the stored Int is an object reference (pointer, map, chan)
	wfDone bool
}

// FnVC generates verification conditions for one function.
type FnVC struct {
	G            *Global
	fn           *ssa.Function
	unit         *Unit
	decls        []string
	declSet      map[string]bool
	dfltN        int
	defs         []string
	obls         []*Obligation
	vals         map[ssa.Value]*Val
	fresh        int
	keys         map[string]*KeyInfo
	entry        *State
	outState     map[*ssa.BasicBlock]*State
	edgePC       map[[2]int]string
	edgeSt       map[[2]int]*State
	loops        map[*ssa.BasicBlock]*loopInfo
	loopOrd      map[*ssa.BasicBlock]int
	notes        []string // approximations made (havoc of unsupported things)
	outside      []string // reasons the function is outside the subset
	oblNames     map[string]int
	strConst     map[string]string
	params       map[string]*Val
	retVals      [][]*Val
	usedSub      bool
	usedCat      bool
	debugVal     map[types.Object][]debugBinding
	deferred     []*ssa.Defer
	ghostLog     []string
	curBlock     *ssa.BasicBlock
	curInstr     ssa.Instruction
	houdini      map[*ssa.BasicBlock][]Clause
	houdiniByOrd map[int][]Clause
	inferOnly    bool
	axiomDefs    []string
	factDefs     map[int]string
	implPreds    map[string]types.Type
	defIndex     map[string]int
	defIndexed   int
	idxMu        sync.Mutex
	usedOfArr    bool
	usedExtQ     bool
	usedSpecs    map[string]bool
	arrSlices    map[string]arrSlice
	localKeys    map[string]string
	loopFresh    map[string]bool
	owned        []string // refs of objects owned by the function (see ownedValue)
	inLoopHavoc  bool
	atDone       map[string]bool
	atUsed       []string
}

type arrSlice struct{ arr, lo string }

type debugBinding struct {
	block *ssa.BasicBlock
	idx   int
	val   ssa.Value
	addr  bool
}

type loopInfo struct {
	header   *ssa.BasicBlock
	blocks   map[*ssa.BasicBlock]bool
	backPred []*ssa.BasicBlock
	ordinal  int
	spec     *LoopSpec
	headSt   *State
	phiVals  map[string]*Val
	ast      ast.Node
	astDone  bool
	preState *State // merged state from entry edges
	decr0    string
}

func (vc *FnVC) freshName(prefix string) string {
	vc.fresh++
	return fmt.Sprintf("%s!%d", sanitize(prefix), vc.fresh)
}

func (vc *FnVC) declare(name, sort string) {
	if vc.declSet[name] {
		return
	}
	vc.declSet[name] = true
	d := fmt.Sprintf("(declare-const %s %s)", name, sort)
	vc.decls = append(vc.decls, d)
}

func (vc *FnVC) declareFun(name string, args []string, ret string) {
	if vc.declSet[name] {
		return
	}
	vc.declSet[name] = true
	d := fmt.Sprintf("(declare-fun %s (%s) %s)", name, strings.Join(args, " "), ret)
	vc.decls = append(vc.decls, d)
}

// define introduces a named abbreviation for a term.
func (vc *FnVC) define(prefix, sort, term string) string {
	if len(term) < 24 && !strings.Contains(term, " ") {
		return term
	}
	n := vc.freshName(prefix)
	vc.defs = append(vc.defs, fmt.Sprintf("(define-fun %s () %s %s)", n, sort, term))
	return n
}

// factDef adds a quantified fact that *defines* the fresh symbol name; it is included in a query only when
// name is relevant for it.
func (vc *FnVC) factDef(name, term string) {
	if vc.factDefs == nil {
		vc.factDefs = map[int]string{}
	}
	vc.factDefs[len(vc.defs)] = name
	vc.defs = append(vc.defs, "(assert "+term+")")
}

func (vc *FnVC) fact(term string) {
	if term == "true" || term == "" {
		return
	}
	vc.defs = append(vc.defs, "(assert "+term+")")
}

// assume adds a condition to the current path condition.
func (vc *FnVC) assume(st *State, cond string) {
	if cond == "true" || cond == "" {
		return
	}
	st.pc = vc.define("pc", "Bool", smtAnd(st.pc, cond))
}

func (vc *FnVC) note(f string, a ...any) {
	s := fmt.Sprintf(f, a...)
	for _, n := range vc.notes {
		if n == s {
			return
		}
	}
	vc.notes = append(vc.notes, s)
}

func (vc *FnVC) unsupported(f string, a ...any) {
	s := fmt.Sprintf(f, a...)
	for _, n := range vc.outside {
		if n == s {
			return
		}
	}
	vc.outside = append(vc.outside, s)
}

// ---------- sorts ----------

func isStruct(t types.Type) bool {
	_, ok := t.Underlying().(*types.Struct)
	return ok
}

func isString(t types.Type) bool {
	b, ok := t.Underlying().(*types.Basic)
	return ok && b.Info()&types.IsString != 0
}

func isInteger(t types.Type) bool {
	b, ok := t.Underlying().(*types.Basic)
	return ok && b.Info()&types.IsInteger != 0
}

func isBool(t types.Type) bool {
	b, ok := t.Underlying().(*types.Basic)
	return ok && b.Info()&types.IsBoolean != 0
}

func isFloat(t types.Type) bool {
	b, ok := t.Underlying().(*types.Basic)
	return ok && b.Info()&types.IsFloat != 0
}

func isUnsigned(t types.Type) bool {
	b, ok := t.Underlying().(*types.Basic)
	return ok && b.Info()&types.IsUnsigned != 0
}

func intBits(t types.Type) int {
	b, ok := t.Underlying().(*types.Basic)
	if !ok {
		return 64
	}
	switch b.Kind() {
	case types.Int8, types.Uint8:
		return 8
	case types.Int16, types.Uint16:
		return 16
	case types.Int32, types.Uint32:
		return 32
	}
	return 64
}

// sortOf returns the SMT sort of a scalar Go type, or "" for flattened types (structs, tuples).
var ghostPkg = types.NewPackage("$ghost", "ghost")
var ghostTypes = map[string]*types.Named{}
var ghostSorts = map[string]string{"StrSet": "(Array Str Bool)", "IntSet": "(Array Int Bool)", "StrIntMap": "(Array Str Int)", "IntIntMap": "(Array Int Int)"}

func ghostType(name string) types.Type {
	if t, ok := ghostTypes[name]; ok {
		return t
	}
	if _, ok := ghostSorts[name]; !ok {
		return nil
	}
	t := types.NewNamed(types.NewTypeName(0, ghostPkg, name, nil), types.Typ[types.Int], nil)
	ghostTypes[name] = t
	return t
}

func sortOf(t types.Type) string {
	if n, ok := t.(*types.Named); ok && n.Obj().Pkg() == ghostPkg {
		return ghostSorts[n.Obj().Name()]
	}
	switch u := t.Underlying().(type) {
	case *types.Basic:
		switch {
		case u.Info()&types.IsBoolean != 0:
			return "Bool"
		case u.Info()&types.IsInteger != 0:
			return "Int"
		case u.Info()&types.IsString != 0:
			return "Str"
		case u.Info()&types.IsFloat != 0:
			return "Real"
		case u.Kind() == types.UnsafePointer:
			return "Int"
		case u.Kind() == types.UntypedNil:
			return "Int"
		}
		return "Int"
	case *types.Pointer, *types.Map, *types.Chan, *types.Signature:
		return "Int"
	case *types.Slice:
		return "Slice"
	case *types.Interface:
		return "Iface"
	case *types.Array:
		es := sortOf(u.Elem())
		if es == "" {
			return ""
		}
		return "(Array Int " + es + ")"
	case *types.Struct, *types.Tuple:
		return ""
	case *types.TypeParam:
		return "Int"
	}
	return "Int"
}

func sortTag(sort string) string {
	return sanitize(strings.NewReplacer("(", "", ")", "", " ", "_").Replace(sort))
}

func typeName(t types.Type) string {
	switch u := t.(type) {
	case *types.Named:
		o := u.Obj()
		if o.Pkg() != nil {
			return o.Pkg().Path() + "." + o.Name()
		}
		return o.Name()
	case *types.Alias:
		return typeName(types.Unalias(u))
	case *types.Pointer:
		return "*" + typeName(u.Elem())
	}
	return t.String()
}

func shortTypeName(t types.Type) string {
	n := typeName(t)
	if i := strings.LastIndex(n, "/"); i >= 0 {
		return n[i+1:]
	}
	return n
}

// zeroTerm returns the SMT zero value of a scalar sort.
func zeroTerm(sort string) string {
	switch sort {
	case "Int":
		return "0"
	case "Bool":
		return "false"
	case "Real":
		return "0.0"
	case "Str":
		return "gs.empty"
	case "Slice":
		return "(mkslice 0 0 0 0)"
	case "Iface":
		return "(mkiface 0 0)"
	}
	if strings.HasPrefix(sort, "(Array Int ") {
		inner := strings.TrimSuffix(strings.TrimPrefix(sort, "(Array Int "), ")")
		return "((as const " + sort + ") " + zeroTerm(inner) + ")"
	}
	if strings.HasPrefix(sort, "(Array Str ") {
		inner := strings.TrimSuffix(strings.TrimPrefix(sort, "(Array Str "), ")")
		return "((as const " + sort + ") " + zeroTerm(inner) + ")"
	}
	return "0"
}

// ---------- state keys ----------

func (vc *FnVC) key(name, sort, kind string) *KeyInfo {
	if k, ok := vc.keys[name]; ok {
		return k
	}
	k := &KeyInfo{Name: name, Sort: sort, Kind: kind}
	vc.keys[name] = k
	vc.needSorts(sort)
	vc.declare(entrySym(name), sort)
	if sort != "(Array Int Int)" {
		vc.entryWF(k)
	}
	return k
}

func (vc *FnVC) keyFrom(ki *KeyInfo) *KeyInfo {
	_, had := vc.keys[ki.Name]
	k := vc.key(ki.Name, ki.Sort, ki.Kind)
	if k.GoType == "" {
		k.GoType = ki.GoType
	}
	_ = had
	vc.entryWF(k)
	return k
}

func entrySym(key string) string { return sanitize(key) + "@0" }

func (vc *FnVC) get(st *State, key string) string {
	if t, ok := st.m[key]; ok {
		return t
	}
	if st.dflt != "" {
		if ki := vc.keys[key]; ki != nil && ki.Kind != "local" && ki.Kind != "iter" && ki.Kind != "alloc" {
			n := sanitize(key) + st.dflt
			vc.declare(n, ki.Sort)
			return n
		}
	}
	return entrySym(key)
}

// havocAll makes every key that has no explicit value in st (in particular keys mentioned later for the first
// time) denote a fresh unconstrained symbol.
func (vc *FnVC) havocAll(st *State) {
	vc.dfltN++
	st.dflt = fmt.Sprintf("~all%d", vc.dfltN)
}

// ensureKey creates the state key k if it can be created from global information (registered field/global
// keys, ghost variables, ghost fields); reports whether it exists afterwards.
func (vc *FnVC) ensureKey(k string) bool {
	if vc.keys[k] != nil {
		return true
	}
	if ki := vc.G.keyInfo(k); ki != nil {
		vc.keyFrom(ki)
		return true
	}
	if strings.HasPrefix(k, "gh!") {
		if g, ok := vc.G.C.Ghosts[k[3:]]; ok {
			env := vc.envAt(vc.entry, nil)
			if t, err := env.parseType(g.Type); err == nil {
				vc.key(k, sortOf(t), "ghost")
				return true
			}
		}
		return false
	}
	if strings.HasPrefix(k, "F!") && strings.Contains(k, "!$") {
		for _, m := range vc.G.C.GhostFields {
			for _, gf := range m {
				if gf.key() == k {
					env := vc.envAt(vc.entry, nil)
					if _, _, err := vc.ghostFieldKey(env, gf); err == nil {
						return true
					}
				}
			}
		}
	}
	return false
}

func (vc *FnVC) set(st *State, key, term string) {
	k := vc.keys[key]
	if k == nil {
		panic("set of undeclared key " + key)
	}
	st.m[key] = vc.define(shortKey(key), k.Sort, term)
}

func shortKey(k string) string {
	if i := strings.LastIndex(k, "/"); i >= 0 {
		k = k[i+1:]
	}
	return k
}

func (vc *FnVC) havocKey(st *State, key string) {
	k := vc.keys[key]
	if k == nil {
		return
	}
	n := vc.freshName(shortKey(key) + "~h")
	vc.declare(n, k.Sort)
	st.m[key] = n
}

// fieldKey returns the heap key for field f of struct type st (named), creating it.
func (vc *FnVC) fieldKey(structT types.Type, f *types.Var) *KeyInfo {
	fs := sortOf(f.Type())
	if fs == "" {
		return nil // embedded struct value: no own heap
	}
	name := "F!" + typeName(structT) + "!" + f.Name()
	k := vc.key(name, "(Array Int "+fs+")", "field")
	k.GoType = f.Type().String()
	switch f.Type().Underlying().(type) {
	case *types.Pointer, *types.Map, *types.Chan:
		k.Ref = true
	}
	vc.entryWF(k)
	return k
}

// entryWF emits (once) the heap well-formedness fact of a key for the entry state.
func (vc *FnVC) entryWF(k *KeyInfo) {
	if k.wfDone || k.Kind == "local" || k.Kind == "iter" || k.Name == "$alloc" {
		return
	}
	if k.Sort == "(Array Int Int)" && !k.Ref && !(strings.HasPrefix(k.GoType, "*") || strings.HasPrefix(k.GoType, "map[")) {
		return // not (yet) known to hold references
	}
	k.wfDone = true
	vc.fact(vc.wfHeap(&State{m: map[string]string{}}, k.Name))
}

func fieldKeyName(structT types.Type, fname string) string {
	return "F!" + typeName(structT) + "!" + fname
}

func (vc *FnVC) memKey(elem types.Type) *KeyInfo {
	es := sortOf(elem)
	if es == "" {
		return nil
	}
	return vc.key("M!"+sortTag(es), "(Array Int (Array Int "+es+"))", "mem")
}

func (vc *FnVC) cellKey(elem types.Type) *KeyInfo {
	es := sortOf(elem)
	if es == "" {
		return nil
	}
	return vc.key("P!"+sortTag(es), "(Array Int "+es+")", "cell")
}

func (vc *FnVC) allocKey() *KeyInfo { return vc.key("$alloc", "Int", "alloc") }

// structKeySort: the SMT datatype used for a struct type as a map key (fields must be scalar).
var structSortDecls sync.Map // datatype name -> declaration

var structSortRe = regexp.MustCompile(`K![^ ()]+`)

// needSorts makes sure the struct-key datatypes mentioned in a sort expression are declared in this query set.
func (vc *FnVC) needSorts(sort string) {
	if !strings.Contains(sort, "K!") {
		return
	}
	for _, n := range structSortRe.FindAllString(sort, -1) {
		if vc.declSet[n] {
			continue
		}
		if d, ok := structSortDecls.Load(n); ok {
			vc.declSet[n] = true
			vc.decls = append([]string{d.(string)}, vc.decls...) // the datatype must precede its uses
		}
	}
}

func structKeySort(t types.Type) (name string, decl string, ok bool) {
	u, isS := t.Underlying().(*types.Struct)
	if !isS {
		return "", "", false
	}
	name = "K!" + sanitize(typeName(t))
	var fs []string
	for i := 0; i < u.NumFields(); i++ {
		fsort := sortOf(u.Field(i).Type())
		if fsort == "" {
			return "", "", false
		}
		fs = append(fs, fmt.Sprintf("(%s.%s %s)", name, u.Field(i).Name(), fsort))
	}
	decl = fmt.Sprintf("(declare-datatypes ((%s 0)) (((mk%s %s))))", name, name, strings.Join(fs, " "))
	structSortDecls.Store(name, decl)
	return name, decl, true
}

func mapKeyNames(m *types.Map) (dom, val, ln string, ks, vs string) {
	ks = sortOf(m.Key())
	vs = sortOf(m.Elem())
	if ks == "" {
		if n, _, ok := structKeySort(m.Key()); ok {
			ks = n
		}
	}
	if ks == "" {
		ks = "Int"
	}
	if vs == "" {
		vs = "Int" // struct-valued maps: value is an object ref
	}
	tag := sortTag(ks) + "!" + sortTag(vs)
	return "MD!" + tag, "MV!" + tag, "ML!" + tag, ks, vs
}

func (vc *FnVC) mapKeys(m *types.Map) (dom, val, ln *KeyInfo) {
	d, v, l, ks, vs := mapKeyNames(m)
	if n, decl, ok := structKeySort(m.Key()); ok && !vc.declSet[n] {
		vc.declSet[n] = true
		vc.decls = append([]string{decl}, vc.decls...) // the datatype must precede its uses
	}
	dom = vc.key(d, "(Array Int (Array "+ks+" Bool))", "mapdom")
	val = vc.key(v, "(Array Int (Array "+ks+" "+vs+"))", "mapval")
	ln = vc.key(l, "(Array Int Int)", "maplen")
	return
}

// ---------- references ----------

// newRef allocates a fresh object reference.
func (vc *FnVC) newRef(st *State, hint string) string {
	vc.allocKey()
	cur := vc.get(st, "$alloc")
	r := vc.define(hint+"~ref", "Int", sx("+", cur, "1"))
	st.m["$alloc"] = r
	return r
}

// embRef returns the reference of the embedded struct field f inside object obj of struct type outer.
func (vc *FnVC) embRef(outer types.Type, f string, obj string) string {
	fn := "emb!" + sanitize(typeName(outer)) + "!" + f
	if !vc.declSet[fn] {
		vc.declareFun(fn, []string{"Int"}, "Int")
		inv := fn + "~inv"
		vc.declareFun(inv, []string{"Int"}, "Int")
		vc.fact(fmt.Sprintf("(forall ((r Int)) (! (and (= (%s (%s r)) r) (< (%s r) 0) (= (ref.root (%s r)) (ref.root r))) :pattern ((%s r))))", inv, fn, fn, fn, fn))
	}
	return sx(fn, obj)
}

func (vc *FnVC) elemRef(elemT types.Type, base, idx string) string {
	fn := "elem!" + sanitize(typeName(elemT))
	if !vc.declSet[fn] {
		vc.declareFun(fn, []string{"Int", "Int"}, "Int")
		vc.declareFun(fn+"~b", []string{"Int"}, "Int")
		vc.declareFun(fn+"~i", []string{"Int"}, "Int")
		vc.fact(fmt.Sprintf("(forall ((b Int) (i Int)) (! (and (= (%s~b (%s b i)) b) (= (%s~i (%s b i)) i) (< (%s b i) 0) (= (ref.root (%s b i)) (ref.root b))) :pattern ((%s b i))))", fn, fn, fn, fn, fn, fn, fn))
	}
	return sx(fn, base, idx)
}

// ---------- string constants ----------

func (vc *FnVC) strConstTerm(s string) string {
	if s == "" {
		return "gs.empty"
	}
	if n, ok := vc.strConst[s]; ok {
		return n
	}
	n := fmt.Sprintf("str!c%d", len(vc.strConst))
	vc.strConst[s] = n
	vc.declare(n, "Str")
	vc.fact(sx("=", sx("gs.len", n), smtInt(int64(len(s)))))
	lim := len(s)
	if lim > 300 {
		lim = 300
	}
	var fs []string
	for i := 0; i < lim; i++ {
		fs = append(fs, sx("=", sx("gs.at", n, smtInt(int64(i))), smtInt(int64(s[i]))))
	}
	vc.fact(smtAnd(fs...))
	return n
}

// ---------- integer ranges ----------

func intRange(t types.Type) (lo, hi string, ok bool) {
	b, isB := t.Underlying().(*types.Basic)
	if !isB || b.Info()&types.IsInteger == 0 {
		return "", "", false
	}
	switch b.Kind() {
	case types.Int8:
		return "(- 128)", "127", true
	case types.Int16:
		return "(- 32768)", "32767", true
	case types.Int32:
		return "(- 2147483648)", "2147483647", true
	case types.Int, types.Int64, types.UntypedInt, types.UntypedRune:
		return "(- 9223372036854775808)", "9223372036854775807", true
	case types.Uint8:
		return "0", "255", true
	case types.Uint16:
		return "0", "65535", true
	case types.Uint32:
		return "0", "4294967295", true
	case types.Uint, types.Uint64, types.Uintptr:
		return "0", "18446744073709551615", true
	}
	return "", "", false
}

const maxLen = "72057594037927936" // 2^56: global assumption on string/slice lengths

// typeFacts returns the well-typedness facts for a scalar term of Go type t.
func (vc *FnVC) typeFacts(st *State, t types.Type, term string) string {
	switch u := t.Underlying().(type) {
	case *types.Basic:
		if lo, hi, ok := intRange(t); ok {
			return smtAnd(sx("<=", lo, term), sx("<=", term, hi))
		}
		if u.Info()&types.IsString != 0 {
			return smtAnd(sx("<=", "0", sx("gs.len", term)), sx("<=", sx("gs.len", term), maxLen))
		}
	case *types.Slice:
		return smtAnd(sx("<=", "0", sx("s.len", term)), sx("<=", sx("s.len", term), sx("s.cap", term)),
			sx("<=", sx("s.cap", term), maxLen), sx("<=", "0", sx("s.off", term)), sx("<=", sx("s.off", term), maxLen),
			sx("<=", "0", sx("s.base", term)), sx("<=", sx("s.base", term), vc.allocTerm(st)),
			smtImp(sx("=", sx("s.base", term), "0"), sx("=", sx("s.cap", term), "0")))
	case *types.Pointer:
		if isStruct(u.Elem()) {
			// element references (negative) are allocated when the array they live in is: without the root fact a
			// pointer parameter could alias an element of an array that `append` allocates later in the function
			return smtAnd(sx("<=", term, vc.allocTerm(st)), sx("<=", sx("ref.root", term), vc.allocTerm(st)))
		}
		return smtAnd(sx("<=", "0", term), sx("<=", term, vc.allocTerm(st)))
	case *types.Map, *types.Chan:
		return smtAnd(sx("<=", "0", term), sx("<=", term, vc.allocTerm(st)))
	case *types.Interface:
		return smtAnd(sx("<=", sx("i.pay", term), vc.allocTerm(st)), sx("<=", "0", sx("i.tag", term)),
			smtImp(sx("=", sx("i.tag", term), "0"), sx("=", sx("i.pay", term), "0")))
	}
	return "true"
}

// wfHeap states heap well-formedness for the current value of a state key: every slice base (and, where the Go type
// of the stored value is known to be a pointer or map, every reference) stored anywhere in it was allocated before
// now. Program loads get this fact per load (typeFacts); quantified contract clauses need it for all cells.
func (vc *FnVC) wfHeap(st *State, key string) string {
	if os.Getenv("GOVC_NOWF") != "" {
		return "true"
	}
	ki := vc.keys[key]
	if ki == nil || key == "$alloc" {
		return "true"
	}
	t := vc.get(st, key)
	a := vc.allocTerm(st)
	// only cells of ALLOCATED objects are constrained: the cells of objects not allocated yet stay arbitrary -- callee
	// postconditions about the fields of the objects a callee allocates are stated over those very cells
	switch {
	case ki.Sort == "(Array Int Slice)":
		return fmt.Sprintf("(forall ((r Int)) (! (=> (<= (ref.root r) %s) (and (<= (s.base (select %s r)) %s) (<= (ref.root (s.base (select %s r))) %s))) :pattern ((select %s r))))", a, t, a, t, a, t)
	case strings.HasPrefix(ki.Sort, "(Array Int (Array ") && strings.HasSuffix(ki.Sort, " Slice))"):
		ks := strings.TrimSuffix(strings.TrimPrefix(ki.Sort, "(Array Int (Array "), " Slice))")
		if strings.ContainsAny(ks, "()") {
			return "true"
		}
		return fmt.Sprintf("(forall ((r Int) (k %s)) (! (=> (<= (ref.root r) %s) (and (<= (s.base (select (select %s r) k)) %s) (<= (ref.root (s.base (select (select %s r) k))) %s))) :pattern ((select (select %s r) k))))", ks, a, t, a, t, a, t)
	case ki.Sort == "(Array Int Iface)":
		// the dynamic value of an interface stored in an allocated cell was allocated before now (boxed scalars are negative)
		return fmt.Sprintf("(forall ((r Int)) (! (=> (<= (ref.root r) %s) (<= (i.pay (select %s r)) %s)) :pattern ((select %s r))))", a, t, a, t)
	case ki.Sort == "(Array Int Int)" && (ki.Ref || strings.HasPrefix(ki.GoType, "*") || strings.HasPrefix(ki.GoType, "map[")):
		return fmt.Sprintf("(forall ((r Int)) (! (=> (<= (ref.root r) %s) (and (<= (select %s r) %s) (<= (ref.root (select %s r)) %s))) :pattern ((select %s r))))", a, t, a, t, a, t)
	}
	return "true"
}

func (vc *FnVC) allocTerm(st *State) string {
	vc.allocKey()
	return vc.get(st, "$alloc")
}

// freshVal creates an unconstrained value of Go type t (with typing facts assumed in st).
func (vc *FnVC) freshVal(st *State, t types.Type, hint string) *Val {
	switch u := t.Underlying().(type) {
	case *types.Struct:
		v := &Val{T: t, Fields: map[string]*Val{}}
		for i := 0; i < u.NumFields(); i++ {
			f := u.Field(i)
			v.Fields[f.Name()] = vc.freshVal(st, f.Type(), hint+"."+f.Name())
			v.Order = append(v.Order, f.Name())
		}
		return v
	case *types.Tuple:
		v := &Val{T: t, Fields: map[string]*Val{}}
		for i := 0; i < u.Len(); i++ {
			k := fmt.Sprint(i)
			v.Fields[k] = vc.freshVal(st, u.At(i).Type(), hint+"#"+k)
			v.Order = append(v.Order, k)
		}
		return v
	}
	s := sortOf(t)
	n := vc.freshName(hint)
	vc.declare(n, s)
	if st != nil {
		vc.assume(st, vc.typeFacts(st, t, n))
	}
	return &Val{T: t, S: n}
}

func (vc *FnVC) zeroVal(t types.Type) *Val {
	switch u := t.Underlying().(type) {
	case *types.Struct:
		v := &Val{T: t, Fields: map[string]*Val{}}
		for i := 0; i < u.NumFields(); i++ {
			f := u.Field(i)
			v.Fields[f.Name()] = vc.zeroVal(f.Type())
			v.Order = append(v.Order, f.Name())
		}
		return v
	case *types.Tuple:
		v := &Val{T: t, Fields: map[string]*Val{}}
		for i := 0; i < u.Len(); i++ {
			k := fmt.Sprint(i)
			v.Fields[k] = vc.zeroVal(u.At(i).Type())
			v.Order = append(v.Order, k)
		}
		return v
	}
	return &Val{T: t, S: zeroTerm(sortOf(t))}
}

// iteVal merges two values under a condition.
func (vc *FnVC) iteVal(c string, a, b *Val) *Val {
	if a == nil {
		return b
	}
	if b == nil {
		return a
	}
	if a.Fields != nil || b.Fields != nil {
		v := &Val{T: a.T, Fields: map[string]*Val{}, Order: a.Order}
		for _, k := range a.Order {
			v.Fields[k] = vc.iteVal(c, a.Fields[k], b.Fields[k])
		}
		return v
	}
	r := &Val{T: a.T, S: smtIte(c, a.S, b.S)}
	if a.S == b.S {
		r.Addr = a.Addr
	}
	return r
}

func sortedKeys[M ~map[string]V, V any](m M) []string {
	ks := make([]string, 0, len(m))
	for k := range m {
		ks = append(ks, k)
	}
	sort.Strings(ks)
	return ks
}

const preamble = `(declare-sort Str 0)
(declare-fun gs.len (Str) Int)
(declare-fun gs.at (Str Int) Int)
(declare-const gs.empty Str)
(assert (= (gs.len gs.empty) 0))
(assert (forall ((s Str)) (! (>= (gs.len s) 0) :pattern ((gs.len s)))))
(declare-fun gs.diff (Str Str) Int)
(declare-datatypes ((Slice 0)) (((mkslice (s.base Int) (s.off Int) (s.len Int) (s.cap Int)))))
(declare-datatypes ((Iface 0)) (((mkiface (i.tag Int) (i.pay Int)))))
`

const rootAxioms = `(declare-fun ref.root (Int) Int)
(assert (forall ((r Int)) (! (=> (>= r 0) (= (ref.root r) r)) :pattern ((ref.root r)))))
`

const subAxioms = `(declare-fun gs.sub (Str Int Int) Str)
(assert (forall ((s Str) (i Int) (j Int)) (! (=> (and (<= 0 i) (<= i j) (<= j (gs.len s))) (= (gs.len (gs.sub s i j)) (- j i))) :pattern ((gs.sub s i j)))))
(assert (forall ((s Str) (i Int) (j Int) (k Int)) (! (=> (and (<= 0 i) (<= i j) (<= j (gs.len s)) (<= 0 k) (< k (- j i))) (= (gs.at (gs.sub s i j) k) (gs.at s (+ i k)))) :pattern ((gs.at (gs.sub s i j) k)))))
`

const ofarrAxioms = `(declare-fun gs.ofarr ((Array Int Int) Int Int) Str)
(assert (forall ((a (Array Int Int)) (o Int) (n Int)) (! (=> (<= 0 n) (= (gs.len (gs.ofarr a o n)) n)) :pattern ((gs.ofarr a o n)))))
(assert (forall ((a (Array Int Int)) (o Int) (n Int) (k Int)) (! (=> (and (<= 0 k) (< k n)) (= (gs.at (gs.ofarr a o n) k) (select a (+ o k)))) :pattern ((gs.at (gs.ofarr a o n) k)))))
`

const catAxioms = `(declare-fun gs.cat (Str Str) Str)
(declare-fun gs.unit (Int) Str)
(assert (forall ((c Int)) (! (and (= (gs.len (gs.unit c)) 1) (= (gs.at (gs.unit c) 0) c)) :pattern ((gs.unit c)))))
(assert (forall ((a Str) (b Str)) (! (= (gs.len (gs.cat a b)) (+ (gs.len a) (gs.len b))) :pattern ((gs.cat a b)))))
(assert (forall ((a Str) (b Str) (k Int)) (! (=> (and (<= 0 k) (< k (+ (gs.len a) (gs.len b)))) (= (gs.at (gs.cat a b) k) (ite (< k (gs.len a)) (gs.at a k) (gs.at b (- k (gs.len a)))))) :pattern ((gs.at (gs.cat a b) k)))))
`

// strEq returns the term for Go string equality, adding the extensionality instance for the pair.
func (vc *FnVC) strEq(a, b string) string {
	if a == b {
		return "true"
	}
	d := sx("gs.diff", a, b)
	vc.fact(smtOr(sx("=", a, b), smtNot(sx("=", sx("gs.len", a), sx("gs.len", b))),
		smtAnd(sx("<=", "0", d), sx("<", d, sx("gs.len", a)), smtNot(sx("=", sx("gs.at", a, d), sx("gs.at", b, d))))))
	return sx("=", a, b)
}
