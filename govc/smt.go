package main

import (
	"bytes"
	"context"
	"fmt"
	"os"
	"os/exec"
	"path/filepath"
	"strings"
	"sync"
	"time"
)

// ---- small helpers to build SMT-LIB terms as strings ----

func sx(op string, args ...string) string {
	if len(args) == 0 {
		return op
	}
	return "(" + op + " " + strings.Join(args, " ") + ")"
}

func smtInt(n int64) string {
	if n < 0 {
		return fmt.Sprintf("(- %d)", -n)
	}
	return fmt.Sprintf("%d", n)
}

func smtAnd(xs ...string) string {
	var ys []string
	for _, x := range xs {
		if x == "true" || x == "" {
			continue
		}
		if x == "false" {
			return "false"
		}
		ys = append(ys, x)
	}
	switch len(ys) {
	case 0:
		return "true"
	case 1:
		return ys[0]
	}
	return sx("and", ys...)
}

func smtOr(xs ...string) string {
	var ys []string
	for _, x := range xs {
		if x == "false" || x == "" {
			continue
		}
		if x == "true" {
			return "true"
		}
		ys = append(ys, x)
	}
	switch len(ys) {
	case 0:
		return "false"
	case 1:
		return ys[0]
	}
	return sx("or", ys...)
}

func smtNot(x string) string {
	switch x {
	case "true":
		return "false"
	case "false":
		return "true"
	}
	return sx("not", x)
}

func smtImp(a, b string) string {
	if a == "true" {
		return b
	}
	if a == "false" || b == "true" {
		return "true"
	}
	return sx("=>", a, b)
}

func smtIte(c, a, b string) string {
	if c == "true" {
		return a
	}
	if c == "false" {
		return b
	}
	if a == b {
		return a
	}
	return sx("ite", c, a, b)
}

func smtEq(a, b string) string {
	if a == b {
		return "true"
	}
	return sx("=", a, b)
}

// sanitize makes an SMT symbol out of an arbitrary string.
func sanitize(s string) string {
	var b strings.Builder
	for _, r := range s {
		switch {
		case r >= 'a' && r <= 'z', r >= 'A' && r <= 'Z', r >= '0' && r <= '9', r == '_', r == '.', r == '$':
			b.WriteRune(r)
		case r == '*':
			b.WriteString("ptr.")
		case r == '/':
			b.WriteByte('.')
		case r == '[':
			b.WriteString("_L")
		case r == ']':
			b.WriteString("R_")
		default:
			b.WriteByte('_')
		}
	}
	return b.String()
}

// ---- solver racing ----

type SolverResult struct {
	Status  string // unsat | sat | unknown | timeout | error
	Solver  string
	Seconds float64
	Output  string // model or error text (truncated)
}

type solverSpec struct {
	name string
	args func(file string, tmo int) []string
	pre  func(script string) string
}

func z3args(bin string) func(string, int) []string {
	return func(file string, tmo int) []string {
		return []string{bin, fmt.Sprintf("-T:%d", tmo), "-smt2", file}
	}
}

var solvers = []solverSpec{
	{name: "z3-new", args: z3args("z3-new")},
	{name: "z3", args: z3args("z3")},
	{name: "cvc5", args: func(file string, tmo int) []string {
		return []string{"cvc5", "--lang=smt2", fmt.Sprintf("--tlimit=%d", tmo*1000), "--produce-models", file}
	}},
}

var scratchDir string
var scratchOnce sync.Once
var queryCounter int
var queryMu sync.Mutex

func scratch() string {
	scratchOnce.Do(func() {
		base := os.Getenv("GOVC_SCRATCH")
		if base == "" {
			base = filepath.Join(os.TempDir(), fmt.Sprintf("govc-%d", os.Getpid()))
		}
		os.MkdirAll(base, 0o755)
		scratchDir = base
	})
	return scratchDir
}

func cleanupScratch() {
	if scratchDir != "" && os.Getenv("GOVC_KEEP") == "" {
		os.RemoveAll(scratchDir)
	}
}

// solve races the installed back ends on one script. wantModel asks for a model when sat.
func solve(script string, timeoutSec int, which []string) SolverResult {
	queryMu.Lock()
	queryCounter++
	id := queryCounter
	queryMu.Unlock()
	file := filepath.Join(scratch(), fmt.Sprintf("q%06d.smt2", id))
	full := "(set-option :produce-models true)\n(set-logic ALL)\n" + script + "\n(check-sat)\n(get-model)\n"
	if err := os.WriteFile(file, []byte(full), 0o644); err != nil {
		return SolverResult{Status: "error", Output: err.Error()}
	}
	defer func() {
		if os.Getenv("GOVC_KEEP") == "" {
			os.Remove(file)
		}
	}()
	ctx, cancel := context.WithTimeout(context.Background(), time.Duration(timeoutSec+2)*time.Second)
	defer cancel()
	type res struct{ r SolverResult }
	ch := make(chan SolverResult, len(solvers))
	n := 0
	for _, s := range solvers {
		if len(which) > 0 {
			ok := false
			for _, w := range which {
				if w == s.name {
					ok = true
				}
			}
			if !ok {
				continue
			}
		}
		n++
		go func(s solverSpec) {
			start := time.Now()
			a := s.args(file, timeoutSec)
			cmd := exec.CommandContext(ctx, a[0], a[1:]...)
			var out bytes.Buffer
			cmd.Stdout = &out
			cmd.Stderr = &out
			cmd.Run()
			o := out.String()
			first := ""
			for _, ln := range strings.Split(o, "\n") {
				ln = strings.TrimSpace(ln)
				if ln == "" || strings.HasPrefix(ln, "WARNING") || strings.HasPrefix(ln, "(warning") {
					continue // z3 prints pattern warnings before the verdict
				}
				first = ln
				break
			}
			st := "unknown"
			switch {
			case first == "unsat":
				st = "unsat"
			case first == "sat":
				st = "sat"
			case first == "timeout" || strings.Contains(first, "interrupted") || ctx.Err() != nil:
				st = "timeout"
			case first == "unknown":
				st = "unknown"
			default:
				if strings.Contains(o, "error") || strings.Contains(o, "Error") {
					st = "error"
				}
			}
			if len(o) > 6000 {
				o = o[:6000] + "\n...[truncated]"
			}
			ch <- SolverResult{Status: st, Solver: s.name, Seconds: time.Since(start).Seconds(), Output: o}
		}(s)
	}
	var best SolverResult
	best.Status = "unknown"
	var errs []string
	for i := 0; i < n; i++ {
		r := <-ch
		if r.Status == "unsat" || r.Status == "sat" {
			cancel()
			return r
		}
		if r.Status == "error" {
			errs = append(errs, r.Solver+": "+firstLines(r.Output, 3))
			if best.Status == "unknown" && best.Solver == "" {
				best = r
			}
			continue
		}
		if best.Solver == "" || best.Status == "error" {
			best = r
		}
	}
	if best.Status == "error" && len(errs) > 0 {
		best.Output = strings.Join(errs, "\n")
	}
	return best
}

func firstLines(s string, n int) string {
	ls := strings.Split(s, "\n")
	if len(ls) > n {
		ls = ls[:n]
	}
	return strings.Join(ls, "\n")
}
