package operators

import (
	"testing"

	"github.com/corazawaf/coraza/v3/experimental/plugins/plugintypes"
)

func TestZPMUnicodeLower(t *testing.T) {
	phrase := "İ" // listed phrase, 2 bytes
	op, err := newPM(plugintypes.OperatorOptions{Arguments: phrase})
	if err != nil {
		t.Fatal(err)
	}
	ds, err := newPMFromDataset(plugintypes.OperatorOptions{Arguments: "d", Datasets: map[string][]string{"d": {phrase}}})
	if err != nil {
		t.Fatal(err)
	}
	t.Logf("pm minLen=%d dataset minLen=%d", op.(*pm).minLen, ds.(*pm).minLen)
	if !ds.Evaluate(nil2{}, "x"+phrase) {
		t.Errorf("pmFromDataset: listed phrase not found")
	}
	if !op.Evaluate(nil2{}, "x"+phrase) {
		t.Errorf("pm: value %q contains the listed phrase %q but @pm says false", "x"+phrase, phrase)
	}
}

type nil2 struct{ plugintypes.TransactionState }

func (nil2) Capturing() bool { return false }
