package types

import "testing"

// C19 / types::ApplyAuditLogParts/post/wellFormedResult#1: a +/- change of a well-formed value must stay well-formed.
func TestC19ApplyKeepsAZ(t *testing.T) {
	for _, mod := range []string{"+E", "-C", "+"} {
		got, err := ApplyAuditLogParts(AuditLogParts("ABCZ"), mod)
		if err != nil {
			t.Fatalf("%q: %v", mod, err)
		}
		if len(got) < 2 || got[0] != 'A' || got[len(got)-1] != 'Z' {
			t.Errorf("ApplyAuditLogParts(\"ABCZ\", %q) = %q: lost the mandatory parts A/Z", mod, string(b(got)))
		}
	}
}

// C19 / types::ParseAuditLogParts/inv-preserve/loop1/inv2#1 (=> post/wellFormed): every middle part of an accepted value is one of B..K.
func TestC19ParseRejectsNonASCII(t *testing.T) {
	got, err := ParseAuditLogParts("AłZ") // U+0142: AuditLogPart(rune) truncates to 0x42 'B'
	if err == nil {
		t.Errorf("ParseAuditLogParts(\"A\\u0142Z\") accepted, parts = % x", b(got))
	}
}

// C19 / types::ApplyAuditLogParts/inv-preserve/loop1/inv2#1 (=> post/deltaAccepted, addedOnly): a named part that is not B..K is rejected.
func TestC19ApplyRejectsNonASCII(t *testing.T) {
	got, err := ApplyAuditLogParts(AuditLogParts("ABCZ"), "+Ņ") // U+0145 truncates to 0x45 'E'
	if err == nil {
		t.Errorf("ApplyAuditLogParts(\"ABCZ\", \"+\\u0145\") accepted, result %q", string(b(got)))
	}
}

func b(p AuditLogParts) []byte {
	r := make([]byte, len(p))
	for i, c := range p {
		r[i] = byte(c)
	}
	return r
}
