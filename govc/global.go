package main

import (
	"fmt"
	"go/ast"
	"go/constant"
	"go/printer"
	"go/token"
	"go/types"
	"os"
	"path/filepath"
	"sort"
	"strings"
	"sync"

	"golang.org/x/tools/go/callgraph"
	"golang.org/x/tools/go/callgraph/cha"
	"golang.org/x/tools/go/callgraph/vta"
	"golang.org/x/tools/go/packages"
	"golang.org/x/tools/go/ssa"
	"golang.org/x/tools/go/ssa/ssautil"
)

const repoModule = "github.com/corazawaf/coraza/v3"

// Global holds the loaded program, the contracts and whole-program analyses.
type Global struct {
	fset          *token.FileSet
	pkgs          []*packages.Package
	prog          *ssa.Program
	C             *Contracts
	repo          string
	fnByKey       map[string]*ssa.Function
	tags          map[string]int
	tagTypes      []types.Type
	mu            sync.Mutex
	writes        map[writeKey]*writeSet
	aboveMemo     map[*types.Package]map[*types.Package]bool
	cg            *callgraph.Graph
	keyInfos      map[string]*KeyInfo
	files         map[string]*ast.File
	used          map[string]map[string]bool // unit key -> set of trusted contracts it relied on
	allFns        map[*ssa.Function]bool
	curInRepo     bool
	constGlobals  map[*ssa.Global]*ssa.Const
	nonNilGlobals map[*ssa.Global]bool
	rtTypes       []types.Type
	cbMemo        map[string][]*ssa.Function
	anyBoxed      []types.Type
	flowInto      map[*types.Package]map[*types.Named]bool
	reachMemo     map[*types.Package]map[*types.Named]bool
	traceSub      string
	traceOut      []string
	ifaceGlobals  map[*ssa.Global]types.Type // init-only interface globals with a known dynamic type (io.Discard, ...)
}

type writeKey struct {
	fn   *ssa.Function
	root *types.Package
}

// aboveLocked: in-repo packages that transitively import root.
func (g *Global) aboveLocked(root *types.Package) map[*types.Package]bool {
	if root == nil {
		return nil
	}
	if a, ok := g.aboveMemo[root]; ok {
		return a
	}
	res := map[*types.Package]bool{}
	var imports func(p *types.Package, seen map[*types.Package]bool) bool
	imports = func(p *types.Package, seen map[*types.Package]bool) bool {
		if p == root {
			return true
		}
		if seen[p] {
			return false
		}
		seen[p] = true
		for _, q := range p.Imports() {
			if imports(q, seen) {
				return true
			}
		}
		return false
	}
	for _, p := range g.prog.AllPackages() {
		if !g.inRepo(p.Pkg) || p.Pkg == root {
			continue
		}
		// the engine's own packages (internal/...: actions, operators, body processors, ...) are called back through
		// the plugin interfaces although they import the engine: only connector-level packages are "above"
		if strings.Contains(p.Pkg.Path(), "/internal/") {
			continue
		}
		if imports(p.Pkg, map[*types.Package]bool{}) {
			res[p.Pkg] = true
		}
	}
	if g.aboveMemo == nil {
		g.aboveMemo = map[*types.Package]map[*types.Package]bool{}
	}
	g.aboveMemo[root] = res
	return res
}

type writeSet struct {
	keys  map[string]bool
	all   bool
	fresh map[string]bool // keys written only through addresses of objects allocated by the same function
}

func loadProgram(repo string, patterns []string) (*Global, error) {
	env := os.Environ()
	var env2 []string
	for _, e := range env {
		if strings.HasPrefix(e, "GOFLAGS=") {
			continue
		}
		env2 = append(env2, e)
	}
	env2 = append(env2, "GOFLAGS=", "GOPROXY=off")
	cfg := &packages.Config{Mode: packages.LoadAllSyntax, Dir: repo, BuildFlags: []string{"-tags=verif"}, Env: env2}
	pkgs, err := packages.Load(cfg, patterns...)
	if err != nil {
		return nil, err
	}
	var errs []string
	packages.Visit(pkgs, nil, func(p *packages.Package) {
		for _, e := range p.Errors {
			if strings.HasPrefix(p.PkgPath, repoModule) {
				errs = append(errs, e.Error())
			}
		}
	})
	if len(errs) > 0 {
		return nil, fmt.Errorf("load errors: %s", strings.Join(errs, "; "))
	}
	prog, _ := ssautil.AllPackages(pkgs, ssa.GlobalDebug|ssa.InstantiateGenerics)
	prog.Build()
	g := &Global{fset: prog.Fset, pkgs: pkgs, prog: prog, C: NewContracts(), repo: repo, fnByKey: map[string]*ssa.Function{},
		tags: map[string]int{}, writes: map[writeKey]*writeSet{}, keyInfos: map[string]*KeyInfo{}, files: map[string]*ast.File{},
		used: map[string]map[string]bool{}, curInRepo: true}
	g.allFns = ssautil.AllFunctions(prog)
	g.findConstGlobals()
	for fn := range g.allFns {
		if fn.Pkg == nil {
			continue
		}
		g.fnByKey[g.fnKey(fn)] = fn
	}
	packages.Visit(pkgs, nil, func(p *packages.Package) {
		for i, f := range p.Syntax {
			if i < len(p.CompiledGoFiles) {
				g.files[p.CompiledGoFiles[i]] = f
			}
		}
	})
	return g, nil
}

// findConstGlobals finds package-level variables that are only ever assigned a constant in init.
func (g *Global) findConstGlobals() {
	g.constGlobals = map[*ssa.Global]*ssa.Const{}
	g.nonNilGlobals = map[*ssa.Global]bool{}
	g.ifaceGlobals = map[*ssa.Global]types.Type{}
	bad := map[*ssa.Global]bool{}
	for fn := range g.allFns {
		if fn.Pkg == nil {
			continue
		}
		isInit := fn.Name() == "init" && fn.Parent() == nil
		for _, b := range fn.Blocks {
			for _, in := range b.Instrs {
				if st, ok := in.(*ssa.Store); ok {
					if gl, ok := st.Addr.(*ssa.Global); ok {
						if c, isC := st.Val.(*ssa.Const); isC && isInit && g.constGlobals[gl] == nil && !g.nonNilGlobals[gl] {
							g.constGlobals[gl] = c
						} else if mi, isMI := st.Val.(*ssa.MakeInterface); isMI && isInit && g.ifaceGlobals[gl] == nil && g.constGlobals[gl] == nil && !g.nonNilGlobals[gl] {
							g.ifaceGlobals[gl] = mi.X.Type()
						} else if call, isCall := st.Val.(*ssa.Call); isCall && isInit && g.constGlobals[gl] == nil && !g.nonNilGlobals[gl] &&
							call.Common().StaticCallee() != nil && (call.Common().StaticCallee().String() == "errors.New" || call.Common().StaticCallee().String() == "fmt.Errorf") {
							g.nonNilGlobals[gl] = true
						} else {
							bad[gl] = true
						}
						continue
					}
				}
				// any other use of a global's address except a plain load disqualifies it
				for _, op := range in.Operands(nil) {
					if op == nil || *op == nil {
						continue
					}
					if gl, ok := (*op).(*ssa.Global); ok {
						if u, isLoad := in.(*ssa.UnOp); isLoad && u.Op == token.MUL {
							continue
						}
						if _, isDbg := in.(*ssa.DebugRef); isDbg {
							continue
						}
						bad[gl] = true
					}
				}
			}
		}
	}
	for gl := range bad {
		delete(g.constGlobals, gl)
		delete(g.nonNilGlobals, gl)
		delete(g.ifaceGlobals, gl)
	}
}

func (g *Global) inRepo(p *types.Package) bool {
	return p != nil && strings.HasPrefix(p.Path(), repoModule)
}

// fnKey is the stable name of a function: <import path>::<RelString>.
func (g *Global) fnKey(fn *ssa.Function) string {
	if fn.Pkg == nil {
		if fn.Parent() != nil {
			return g.fnKey(fn.Parent()) + "$" + fn.Name()
		}
		return fn.String()
	}
	return fn.Pkg.Pkg.Path() + "::" + fn.RelString(fn.Pkg.Pkg)
}

func (g *Global) unitFor(fn *ssa.Function) *Unit {
	if fn.Pkg == nil {
		// instantiation of a generic function: the (trusted) contract of its origin applies
		if o := fn.Origin(); o != nil && o.Pkg != nil {
			if u := g.C.Units[g.fnKey(o)]; u != nil && u.Trusted {
				return u
			}
		}
		return nil
	}
	return g.C.Units[g.fnKey(fn)]
}

func (g *Global) pkgByPath(path string) *types.Package {
	for _, p := range g.prog.AllPackages() {
		if p.Pkg.Path() == path {
			return p.Pkg
		}
	}
	return nil
}

// pkgByName resolves a package name as seen from package `from` (its imports), falling back to any package of that name.
func (g *Global) pkgByName(name string, from *types.Package) *types.Package {
	if from != nil {
		for _, imp := range from.Imports() {
			if imp.Name() == name {
				return imp
			}
		}
	}
	var cands []*types.Package
	for _, p := range g.prog.AllPackages() {
		if p.Pkg.Name() == name {
			cands = append(cands, p.Pkg)
		}
	}
	// seen from a library package (spec files): the standard-library package of exactly that name wins
	if from != nil && !g.inRepo(from) {
		for _, c := range cands {
			if c.Path() == name {
				return c
			}
		}
	}
	// prefer in-repo packages
	for _, c := range cands {
		if g.inRepo(c) {
			return c
		}
	}
	if len(cands) > 0 {
		sort.Slice(cands, func(i, j int) bool { return len(cands[i].Path()) < len(cands[j].Path()) })
		return cands[0]
	}
	return nil
}

// loadContracts reads //@ contract files: zz_contracts_verif.go next to the code, and /verif/specs/*.spec.
func (g *Global) loadContracts(specDir string) error {
	for _, p := range g.prog.AllPackages() {
		if !g.inRepo(p.Pkg) {
			continue
		}
		var dir string
		for _, pk := range g.pkgs {
			_ = pk
		}
		packages.Visit(g.pkgs, nil, func(pp *packages.Package) {
			if pp.PkgPath == p.Pkg.Path() && len(pp.GoFiles) > 0 {
				dir = filepath.Dir(pp.GoFiles[0])
			}
		})
		if dir == "" {
			continue
		}
		// zz_contracts_verif.go and any number of zz_contracts_<topic>_verif.go files, in name order
		fs, _ := filepath.Glob(filepath.Join(dir, "zz_contracts_*verif.go"))
		sort.Strings(fs)
		for _, f := range fs {
			if err := g.C.ParseFile(f, p.Pkg.Path()); err != nil {
				return err
			}
		}
	}
	specs, _ := filepath.Glob(filepath.Join(specDir, "*.spec"))
	sort.Strings(specs)
	for _, s := range specs {
		if err := g.parseSpecFile(s); err != nil {
			return err
		}
	}
	if err := g.expandRefinements(); err != nil {
		return err
	}
	// a trusted unit that promises a fresh result must be marked `allocates`: otherwise the allocation counter does
	// not advance at the call and fresh(result) contradicts the typing fact result <= $alloc (callers become vacuous)
	var bad []string
	for k, u := range g.C.Units {
		if u.Trusted && !u.Opts["allocates"] {
			for _, e := range u.Ensures {
				if strings.Contains(e.Text, "fresh(") {
					bad = append(bad, k)
					break
				}
			}
		}
	}
	if len(bad) > 0 {
		sort.Strings(bad)
		return fmt.Errorf("trusted units with fresh(...) in an ensures but without the `allocates` option: %s", strings.Join(bad, ", "))
	}
	return nil
}

// parseSpecFile: like a contract file, but "//@ package <path>" lines switch the package.
func (g *Global) parseSpecFile(path string) error {
	data, err := os.ReadFile(path)
	if err != nil {
		return err
	}
	// split into per-package chunks, preserving line numbers by padding
	lines := strings.Split(string(data), "\n")
	cur := ""
	var chunk []string
	flush := func() error {
		if len(strings.TrimSpace(strings.Join(chunk, ""))) == 0 {
			return nil
		}
		tmp, err := os.CreateTemp(scratch(), "spec*.txt")
		if err != nil {
			return err
		}
		tmp.WriteString(strings.Join(chunk, "\n"))
		tmp.Close()
		defer os.Remove(tmp.Name())
		c2 := NewContracts()
		if err := c2.ParseFile(tmp.Name(), cur); err != nil {
			return fmt.Errorf("%s: %v", path, err)
		}
		for k, u := range c2.Units {
			u.File = path
			if prev, dup := g.C.Units[k]; dup {
				if prev.Trusted && u.Trusted {
					// the same library function specified in two spec files: the clauses accumulate
					prev.Requires = append(prev.Requires, u.Requires...)
					prev.Ensures = append(prev.Ensures, u.Ensures...)
					prev.Modifies = append(prev.Modifies, u.Modifies...)
					prev.HasMod = prev.HasMod || u.HasMod
					for o := range u.Opts {
						prev.Opts[o] = true
					}
					continue
				}
				return fmt.Errorf("%s: duplicate unit %s", path, k)
			}
			g.C.Units[k] = u
		}
		for k, s := range c2.Specs {
			if prev, dup := g.C.Specs[k]; dup && (prev.BodyTxt != s.BodyTxt || prev.Result != s.Result) {
				return fmt.Errorf("%s: spec function %s declared twice with different definitions", path, k)
			}
			g.C.Specs[k] = s
		}
		for k, s := range c2.Ghosts {
			g.C.Ghosts[k] = s
		}
		for o, m := range c2.GhostFields {
			if g.C.GhostFields[o] == nil {
				g.C.GhostFields[o] = map[string]*GhostField{}
			}
			for k, v := range m {
				g.C.GhostFields[o][k] = v
			}
		}
		g.C.Axioms = append(g.C.Axioms, c2.Axioms...)
		for _, s := range c2.Scan {
			g.C.Scan = append(g.C.Scan, strings.Replace(s, filepath.Base(tmp.Name()), filepath.Base(path), 1))
		}
		return nil
	}
	for _, l := range lines {
		t := strings.TrimSpace(l)
		if strings.HasPrefix(t, "//@ package ") {
			if err := flush(); err != nil {
				return err
			}
			cur = strings.TrimSpace(strings.TrimPrefix(t, "//@ package "))
			if cur == "builtin" {
				cur = "" // universe types (error)
			}
			// keep line count
			for i := range chunk {
				chunk[i] = ""
			}
			chunk = append(chunk, "")
			continue
		}
		chunk = append(chunk, l)
	}
	g.C.Files = append(g.C.Files, path)
	return flush()
}

// ---------- type tags ----------

func (g *Global) typeTag(t types.Type) int {
	g.mu.Lock()
	defer g.mu.Unlock()
	k := t.String()
	if n, ok := g.tags[k]; ok {
		return n
	}
	n := len(g.tags) + 1
	g.tags[k] = n
	g.tagTypes = append(g.tagTypes, t)
	return n
}

func (g *Global) tagsImplementing(iface types.Type) []int {
	it, ok := iface.Underlying().(*types.Interface)
	if !ok {
		return nil
	}
	g.mu.Lock()
	defer g.mu.Unlock()
	var out []int
	for i, t := range g.tagTypes {
		if types.Implements(t, it) {
			out = append(out, i+1)
		}
	}
	return out
}

func (g *Global) tagsImplementingSplit(iface types.Type) (pos, neg []int) {
	it, ok := iface.Underlying().(*types.Interface)
	if !ok {
		return nil, nil
	}
	g.mu.Lock()
	defer g.mu.Unlock()
	for i, t := range g.tagTypes {
		if types.Implements(t, it) {
			pos = append(pos, i+1)
		} else {
			neg = append(neg, i+1)
		}
	}
	return
}

// ---------- source text for obligation names ----------

func (g *Global) sourceText(fn *ssa.Function, v ssa.Value, in ssa.Instruction) string {
	var pos token.Pos
	if in != nil {
		pos = in.Pos()
	}
	if v != nil && v.Pos().IsValid() && !pos.IsValid() {
		pos = v.Pos()
	}
	txt := ""
	if pos.IsValid() {
		txt = g.exprAt(pos, in)
	}
	if txt == "" {
		if v != nil {
			txt = v.Name()
		} else if in != nil {
			txt = in.String()
		}
	}
	txt = strings.Join(strings.Fields(txt), " ")
	if len(txt) > 70 {
		txt = txt[:70]
	}
	return txt
}

// stmtAt returns the text of the smallest assignment / inc-dec statement containing pos.
func (g *Global) stmtAt(pos token.Pos) string {
	if !pos.IsValid() {
		return ""
	}
	p := g.fset.Position(pos)
	f := g.files[p.Filename]
	if f == nil {
		return ""
	}
	var best ast.Node
	ast.Inspect(f, func(n ast.Node) bool {
		if n == nil || n.Pos() > pos || n.End() < pos {
			return n != nil && !(n.Pos() > pos || n.End() < pos)
		}
		switch n.(type) {
		case *ast.AssignStmt, *ast.IncDecStmt:
			best = n
		}
		return true
	})
	if best == nil {
		return ""
	}
	var sb strings.Builder
	printer.Fprint(&sb, g.fset, best)
	return strings.Join(strings.Fields(sb.String()), " ")
}

// opAssignAt returns the text of the `x op= y` statement whose operator token sits at pos ("" if there is none).
func (g *Global) opAssignAt(pos token.Pos) string {
	if !pos.IsValid() {
		return ""
	}
	p := g.fset.Position(pos)
	f := g.files[p.Filename]
	if f == nil {
		return ""
	}
	var best *ast.AssignStmt
	ast.Inspect(f, func(n ast.Node) bool {
		if n == nil || n.Pos() > pos || n.End() < pos {
			return n != nil && !(n.Pos() > pos || n.End() < pos)
		}
		if as, ok := n.(*ast.AssignStmt); ok && (as.TokPos == pos || as.Pos() == pos) && as.Tok != token.ASSIGN && as.Tok != token.DEFINE {
			best = as
		}
		return true
	})
	if best == nil {
		return ""
	}
	var sb strings.Builder
	printer.Fprint(&sb, g.fset, best)
	return strings.Join(strings.Fields(sb.String()), " ")
}

// exprAt finds the smallest expression/statement of the expected kind whose relevant token sits at pos.
func (g *Global) exprAt(pos token.Pos, in ssa.Instruction) string {
	p := g.fset.Position(pos)
	f := g.files[p.Filename]
	if f == nil {
		return ""
	}
	var best ast.Node
	ast.Inspect(f, func(n ast.Node) bool {
		if n == nil {
			return false
		}
		if n.Pos() > pos || n.End() < pos {
			return false
		}
		switch x := n.(type) {
		case *ast.IndexExpr:
			if x.Lbrack == pos {
				best = n
			}
		case *ast.SliceExpr:
			if x.Lbrack == pos {
				best = n
			}
		case *ast.BinaryExpr:
			if x.OpPos == pos {
				best = n
			}
		case *ast.CallExpr:
			if x.Lparen == pos {
				best = n
			}
		case *ast.SelectorExpr:
			if x.Sel.Pos() == pos {
				best = n
			}
		case *ast.StarExpr:
			if x.Star == pos {
				best = n
			}
		case *ast.UnaryExpr:
			if x.OpPos == pos {
				best = n
			}
		case *ast.TypeAssertExpr:
			if x.Lparen == pos {
				best = n
			}
		case *ast.AssignStmt:
			if x.TokPos == pos && best == nil {
				best = n
			}
		case *ast.IncDecStmt:
			if x.TokPos == pos && best == nil {
				best = n
			}
		case *ast.Ident:
			if x.Pos() == pos && best == nil {
				best = n
			}
		case *ast.CompositeLit:
			if x.Lbrace == pos && best == nil {
				best = n
			}
		}
		return true
	})
	if best == nil {
		return ""
	}
	var sb strings.Builder
	printer.Fprint(&sb, g.fset, best)
	return sb.String()
}

// ---------- write-set inference ----------

func (g *Global) callGraph() *callgraph.Graph {
	g.mu.Lock()
	defer g.mu.Unlock()
	if g.cg == nil {
		g.cg = vta.CallGraph(g.allFns, cha.CallGraph(g.prog))
	}
	return g.cg
}

var pureLibPkgs = map[string]bool{"strings": true, "strconv": true, "unicode": true, "unicode/utf8": true, "errors": true,
	"math": true, "math/bits": true, "fmt": true, "path": true, "path/filepath": true, "unicode/utf16": true, "html": true,
	"time": true, "net/url": true, "encoding/hex": true, "encoding/base64": true, "crypto/md5": true, "crypto/sha1": true,
	"regexp": true, "regexp/syntax": true, "net": true, "net/netip": true, "slices": true, "sort": true, "bytes": true,
	"github.com/corazawaf/coraza/v3/debuglog": true, "hash/crc32": true, "mime": true}

// isPureLib: functions of these packages are treated as having no effect on verified state
// (they may write through pointers they are given; escaping addresses are havocked separately).
func (g *Global) isPureLib(fn *ssa.Function) bool {
	if fn.Pkg == nil {
		return false
	}
	p := fn.Pkg.Pkg.Path()
	if !pureLibPkgs[p] {
		return false
	}
	// methods on Builder/Buffer/Reader mutate their receiver: those need contracts
	if fn.Signature.Recv() != nil {
		rt := fn.Signature.Recv().Type().String()
		for _, m := range []string{"strings.Builder", "bytes.Buffer", "bytes.Reader", "strings.Reader", "sort.", "time.Timer"} {
			if strings.Contains(rt, m) {
				return false
			}
		}
	}
	if p == "sort" || p == "slices" {
		return false
	}
	return true
}

func (g *Global) keyInfo(name string) *KeyInfo {
	g.mu.Lock()
	defer g.mu.Unlock()
	return g.keyInfos[name]
}

func (g *Global) regKey(name, sort, kind string) {
	if _, ok := g.keyInfos[name]; !ok {
		g.keyInfos[name] = &KeyInfo{Name: name, Sort: sort, Kind: kind}
	}
}

// directWrites computes the state keys written by the instructions of fn itself.
func (g *Global) directWrites(fn *ssa.Function) *writeSet {
	ws := &writeSet{keys: map[string]bool{}}
	g.curInRepo = fn.Pkg != nil && g.inRepo(fn.Pkg.Pkg)
	for _, b := range liveBlocks(fn) {
		for _, in := range b.Instrs {
			g.instrDirect(in, ws)
		}
	}
	g.curInRepo = true
	return ws
}

// freshBase reports whether the address/slice/map value v is derived, within its function, from an
// allocation made by that same function (so a write through it cannot touch pre-existing objects).
func freshBase(v ssa.Value, depth int) bool {
	if depth > 8 {
		return false
	}
	switch a := v.(type) {
	case *ssa.Alloc, *ssa.MakeSlice, *ssa.MakeMap:
		return true
	case *ssa.FieldAddr:
		return freshBase(a.X, depth+1)
	case *ssa.IndexAddr:
		return freshBase(a.X, depth+1)
	case *ssa.Slice:
		return freshBase(a.X, depth+1)
	}
	return false
}

func (g *Global) addrKeys(v ssa.Value, ws *writeSet, depth int) {
	if depth > 6 {
		ws.all = true
		return
	}
	if freshBase(v, 0) {
		// record separately: irrelevant for callers, but a loop containing the store still changes the key
		if ws.fresh != nil && depth == 0 {
			sub := &writeSet{keys: map[string]bool{}}
			g.addrKeysNoFresh(v, sub)
			for k := range sub.keys {
				ws.fresh[k] = true
			}
		}
		return
	}
	switch a := v.(type) {
	case *ssa.FieldAddr:
		st := a.X.Type().Underlying().(*types.Pointer).Elem()
		f := st.Underlying().(*types.Struct).Field(a.Field)
		g.fieldKeys(st, f, ws)
	case *ssa.IndexAddr:
		switch t := a.X.Type().Underlying().(type) {
		case *types.Slice:
			g.elemKeys(t.Elem(), ws)
		case *types.Pointer:
			// element of an array: the array lives wherever a.X points
			g.addrKeys(a.X, ws, depth+1)
		}
	case *ssa.Alloc:
		if a.Heap {
			g.cellKeys(a.Type().(*types.Pointer).Elem(), ws)
		}
	case *ssa.Global:
		elem := a.Type().(*types.Pointer).Elem()
		if isStruct(elem) {
			g.structKeys(elem, ws)
		} else {
			s := sortOf(elem)
			if s == "" {
				s = "Int"
			}
			name := "G!" + a.Pkg.Pkg.Path() + "." + a.Name()
			g.regKey(name, s, "global")
			g.keyInfos[name].GoType = elem.String()
			ws.keys[name] = true
		}
	default:
		// pointer of unknown origin: a cell of that type, or a whole struct
		pt, ok := v.Type().Underlying().(*types.Pointer)
		if !ok {
			return
		}
		if isStruct(pt.Elem()) {
			g.structKeys(pt.Elem(), ws)
		} else {
			g.cellKeys(pt.Elem(), ws)
			// in-repo code may have been handed the address of a field or element of that type
			if g.curInRepo {
				ws.keys["?ptr:"+sortOf(pt.Elem())+"|"+pt.Elem().String()] = true
			}
		}
	}
}

// addrKeysNoFresh: the keys a store through v touches, ignoring freshness.
func (g *Global) addrKeysNoFresh(v ssa.Value, ws *writeSet) {
	switch a := v.(type) {
	case *ssa.FieldAddr:
		st := a.X.Type().Underlying().(*types.Pointer).Elem()
		g.fieldKeys(st, st.Underlying().(*types.Struct).Field(a.Field), ws)
	case *ssa.IndexAddr:
		switch t := a.X.Type().Underlying().(type) {
		case *types.Slice:
			g.elemKeys(t.Elem(), ws)
		case *types.Pointer:
			if at, ok := t.Elem().Underlying().(*types.Array); ok && isStruct(at.Elem()) {
				g.structKeys(at.Elem(), ws)
			} else {
				// element of an array: the array lives wherever a.X points (a field, a cell)
				g.addrKeysNoFresh(a.X, ws)
			}
		}
	case *ssa.Alloc:
		elem := a.Type().(*types.Pointer).Elem()
		if isStruct(elem) {
			g.structKeys(elem, ws)
		} else if a.Heap {
			g.cellKeys(elem, ws)
		}
	}
}

func (g *Global) fieldKeys(st types.Type, f *types.Var, ws *writeSet) {
	if isStruct(f.Type()) {
		g.structKeys(f.Type(), ws)
		return
	}
	fs := sortOf(f.Type())
	if fs == "" {
		return
	}
	name := fieldKeyName(st, f.Name())
	g.regKey(name, "(Array Int "+fs+")", "field")
	g.keyInfos[name].GoType = f.Type().String()
	ws.keys[name] = true
}

func (g *Global) structKeys(t types.Type, ws *writeSet) {
	u, ok := t.Underlying().(*types.Struct)
	if !ok {
		return
	}
	for i := 0; i < u.NumFields(); i++ {
		g.fieldKeys(t, u.Field(i), ws)
	}
}

func (g *Global) elemKeys(elem types.Type, ws *writeSet) {
	if isStruct(elem) {
		g.structKeys(elem, ws)
		return
	}
	es := sortOf(elem)
	if es == "" {
		return
	}
	name := "M!" + sortTag(es)
	g.regKey(name, "(Array Int (Array Int "+es+"))", "mem")
	ws.keys[name] = true
}

func (g *Global) cellKeys(elem types.Type, ws *writeSet) {
	if isStruct(elem) {
		g.structKeys(elem, ws)
		return
	}
	es := sortOf(elem)
	if es == "" {
		return
	}
	name := "P!" + sortTag(es)
	g.regKey(name, "(Array Int "+es+")", "cell")
	ws.keys[name] = true
}

func (g *Global) mapKeysW(mt *types.Map, ws *writeSet) {
	d, v, l, ks, vs := mapKeyNames(mt)
	g.regKey(d, "(Array Int (Array "+ks+" Bool))", "mapdom")
	g.regKey(v, "(Array Int (Array "+ks+" "+vs+"))", "mapval")
	g.regKey(l, "(Array Int Int)", "maplen")
	ws.keys[d], ws.keys[v], ws.keys[l] = true, true, true
	if isStruct(mt.Elem()) {
		g.structKeys(mt.Elem(), ws)
	}
}

func (g *Global) instrDirect(in ssa.Instruction, ws *writeSet) {
	g.regKey("$alloc", "Int", "alloc")
	switch x := in.(type) {
	case *ssa.Store:
		g.addrKeys(x.Addr, ws, 0)
	case *ssa.MapUpdate:
		if !freshBase(x.Map, 0) {
			g.mapKeysW(x.Map.Type().Underlying().(*types.Map), ws)
		} else if ws.fresh != nil {
			sub := &writeSet{keys: map[string]bool{}}
			g.mapKeysW(x.Map.Type().Underlying().(*types.Map), sub)
			for k := range sub.keys {
				ws.fresh[k] = true
			}
		}
		ws.keys["$alloc"] = true
	case *ssa.Alloc:
		if x.Heap || isStruct(x.Type().(*types.Pointer).Elem()) {
			ws.keys["$alloc"] = true
			if ws.fresh != nil {
				sub := &writeSet{keys: map[string]bool{}}
				g.addrKeysNoFresh(x, sub)
				for k := range sub.keys {
					ws.fresh[k] = true
				}
			}
		}
	case *ssa.MakeMap:
		ws.keys["$alloc"] = true
		if ws.fresh != nil {
			sub := &writeSet{keys: map[string]bool{}}
			g.mapKeysW(x.Type().Underlying().(*types.Map), sub)
			for k := range sub.keys {
				ws.fresh[k] = true
			}
		}
	case *ssa.MakeSlice:
		ws.keys["$alloc"] = true
		if ws.fresh != nil {
			sub := &writeSet{keys: map[string]bool{}}
			g.elemKeys(x.Type().Underlying().(*types.Slice).Elem(), sub)
			for k := range sub.keys {
				ws.fresh[k] = true
			}
		}
	case *ssa.MakeInterface:
		if isStruct(x.X.Type()) {
			ws.keys["$alloc"] = true
			if ws.fresh != nil {
				sub := &writeSet{keys: map[string]bool{}}
				g.structKeys(x.X.Type(), sub)
				for k := range sub.keys {
					ws.fresh[k] = true
				}
			}
		}
	case *ssa.MakeClosure:
		ws.keys["$alloc"] = true
	case *ssa.Convert:
		if isByteSlice(x.Type()) && isString(x.X.Type()) {
			g.elemKeys(x.Type().Underlying().(*types.Slice).Elem(), ws)
			ws.keys["$alloc"] = true
		}
	case ssa.CallInstruction:
		c := x.Common()
		if b, ok := c.Value.(*ssa.Builtin); ok {
			switch b.Name() {
			case "append", "copy":
				if sl, ok := c.Args[0].Type().Underlying().(*types.Slice); ok {
					if !freshBase(c.Args[0], 0) {
						g.elemKeys(sl.Elem(), ws)
					} else if ws.fresh != nil {
						sub := &writeSet{keys: map[string]bool{}}
						g.elemKeys(sl.Elem(), sub)
						for k := range sub.keys {
							ws.fresh[k] = true
						}
					}
				}
				ws.keys["$alloc"] = true
			case "delete", "clear":
				if mt, ok := c.Args[0].Type().Underlying().(*types.Map); ok {
					g.mapKeysW(mt, ws)
				}
			}
		}
	}
}

// fnWrites returns the transitive write set of fn (over the CHA call graph).
// fnWrites computes the transitive write set of fn as seen from a function of package root: in-repo packages
// that (transitively) import root are never entered (no re-entrance from connector-level code: assumption).
func (g *Global) fnWrites(fn *ssa.Function, root *types.Package) (map[string]bool, bool) {
	mk := writeKey{fn, root}
	g.mu.Lock()
	if w, ok := g.writes[mk]; ok {
		g.mu.Unlock()
		return w.keys, w.all
	}
	g.mu.Unlock()
	cg := g.callGraph()
	g.mu.Lock()
	defer g.mu.Unlock()
	above := g.aboveLocked(root)
	// reachability from fn
	seen := map[*ssa.Function]bool{}
	stack := []*ssa.Function{fn}
	parent := map[*ssa.Function]*ssa.Function{}
	push := func(from *ssa.Function, ts []*ssa.Function) {
		for _, t := range ts {
			if _, ok := parent[t]; !ok && t != fn {
				parent[t] = from
			}
			stack = append(stack, t)
		}
	}
	traceKey := func(f *ssa.Function, k string) {
		if g.traceSub != "" && strings.Contains(k, g.traceSub) && g.traceOut == nil {
			var chain []string
			for x := f; x != nil; x = parent[x] {
				chain = append(chain, x.String())
				if x == fn {
					break
				}
			}
			g.traceOut = append([]string{"key " + k + " reached via:"}, chain...)
		}
	}
	res := &writeSet{keys: map[string]bool{}}
	for len(stack) > 0 {
		f := stack[len(stack)-1]
		stack = stack[:len(stack)-1]
		if seen[f] {
			continue
		}
		seen[f] = true
		if f != fn && f.Pkg != nil && above[f.Pkg.Pkg] {
			continue
		}
		if w, ok := g.writes[writeKey{f, root}]; ok && f != fn {
			for k := range w.keys {
				res.keys[k] = true
			}
			res.all = res.all || w.all
			continue
		}
		// contract with explicit modifies: trust it instead of descending
		if u := g.unitForLocked(f); u != nil && f != fn && (u.HasMod || u.Trusted || u.Pure) {
			sub := &writeSet{keys: map[string]bool{}}
			g.unitModKeys(u, f, sub)
			for k := range sub.keys {
				traceKey(f, k)
				res.keys[k] = true
			}
			res.all = res.all || sub.all
			if !u.ModInferred {
				continue
			}
		}
		if g.isPureLib(f) && f != fn {
			continue
		}
		if f.Pkg != nil && !g.inRepo(f.Pkg.Pkg) && !(f == fn && root != nil && f.Pkg.Pkg == root) {
			// library code: it changes verified state only by calling methods of in-repo types (parametricity
			// assumption, listed in evidence); which methods is read off its signature
			push(f, g.libCallbackTargets(f))
			continue
		}
		// closures passed to pure library functions may be run by them
		for _, b := range liveBlocks(f) {
			for _, in := range b.Instrs {
				if ci, ok := in.(ssa.CallInstruction); ok {
					if callee := ci.Common().StaticCallee(); callee != nil && g.isPureLib(callee) {
						for _, a := range ci.Common().Args {
							if mc, ok := a.(*ssa.MakeClosure); ok {
								push(f, []*ssa.Function{mc.Fn.(*ssa.Function)})
							} else if fa, ok := a.(*ssa.Function); ok {
								push(f, []*ssa.Function{fa})
							}
						}
					}
				}
			}
		}
		if len(f.Blocks) == 0 {
			continue // assembly / external: trusted not to write verified state
		}
		if f.Pkg != nil && !g.inRepo(f.Pkg.Pkg) && !g.mayCallBack(f) {
			// library code: writes only through what it is given; conservatively record its direct writes
		}
		dw := g.directWritesLocked(f)
		for k := range dw.keys {
			traceKey(f, k)
			res.keys[k] = true
		}
		res.all = res.all || dw.all
		push(f, g.targetsLocked(cg, f, res))
	}
	g.writes[mk] = res
	return res.keys, res.all
}

func (g *Global) mayCallBack(f *ssa.Function) bool { return true }

// targetsLocked lists the functions whose effects a call from f may have, per call site, using the
// argument-type specialisation for library calls and the VTA call graph otherwise.
func (g *Global) targetsLocked(cg *callgraph.Graph, f *ssa.Function, res *writeSet) []*ssa.Function {
	var out []*ssa.Function
	for _, b := range liveBlocks(f) {
		for _, in := range b.Instrs {
			ci, ok := in.(ssa.CallInstruction)
			if !ok {
				continue
			}
			// function values handed to any callee may be run by it
			for _, a := range ci.Common().Args {
				if mc, ok := a.(*ssa.MakeClosure); ok {
					out = append(out, mc.Fn.(*ssa.Function))
				} else if fa, ok := a.(*ssa.Function); ok {
					out = append(out, fa)
				}
			}
		}
	}
	refined := map[ssa.CallInstruction]bool{}
	for _, b := range liveBlocks(f) {
		for _, in := range b.Instrs {
			if ci, ok := in.(ssa.CallInstruction); ok {
				if key := funcFieldKey(ci.Common().Value); key != "" && !ci.Common().IsInvoke() {
					if u := g.C.Units[key]; u != nil {
						if res != nil {
							g.unitModKeys(u, nil, res)
						}
						if !u.ModInferred {
							refined[ci] = true
							continue
						}
					}
				}
				if ci.Common().IsInvoke() {
					// an interface method with a (trusted) contract: its modifies clause is its effect -- unless it says
					// `modifies inferred, ...`: then the listed items are added to what the possible targets (VTA) write
					if u := g.C.Units[ifaceKey(ci.Common().Value.Type(), ci.Common().Method.Name())]; u != nil {
						if res != nil {
							g.unitModKeys(u, nil, res)
						}
						if !u.ModInferred {
							refined[ci] = true
							continue
						}
					}
				}
				if callee := ci.Common().StaticCallee(); callee != nil && !g.isPureLib(callee) {
					if u := g.unitFor(callee); u == nil || (u.Trusted && u.ModInferred) {
						if ts, lk, ok := g.libSiteTargetsKeys(callee, ci.Common()); ok {
							refined[ci] = true
							out = append(out, ts...)
							if res != nil {
								for _, k := range lk {
									if strings.HasPrefix(k, "fresh:") {
										continue // an object this function created itself: invisible to its callers
									}
									res.keys[k] = true
								}
							}
							if u != nil && res != nil {
								g.unitModKeys(u, callee, res)
							}
						}
					}
				}
			}
		}
	}
	if n := cg.Nodes[f]; n != nil {
		live := map[*ssa.BasicBlock]bool{}
		for _, b := range liveBlocks(f) {
			live[b] = true
		}
		for _, e := range n.Out {
			if e.Callee == nil || e.Callee.Func == nil {
				continue
			}
			if e.Site != nil && refined[e.Site] {
				continue
			}
			if e.Site != nil && e.Site.Block() != nil && !live[e.Site.Block()] {
				continue // call under a branch that is constant-false in this build
			}
			out = append(out, e.Callee.Func)
		}
	}
	return out
}

var leafLibTypes = map[string]bool{"strings.Builder": true, "bytes.Buffer": true, "os.File": true, "strings.Reader": true, "bytes.Reader": true,
	"io.discard": true, "crypto/md5.digest": true, "crypto/sha1.digest": true, "sync.Pool": true, "sync.Mutex": true, "sync.RWMutex": true, "regexp.Regexp": true}

// libSiteTargets refines libCallbackTargets with what the call site shows: an interface argument built from a
// known concrete type contributes only that type's methods (nothing for library types that wrap no other value),
// an interface argument of unknown dynamic type contributes the in-repo types implementing that interface.
// ok=false when the site cannot be refined (then the signature-level rule applies).
func (g *Global) libSiteTargets(callee *ssa.Function, c *ssa.CallCommon) (out []*ssa.Function, ok bool) {
	out, _, ok = g.libSiteTargetsKeys(callee, c)
	return
}

// freshLibObject reports whether the leaf library object v was created by the calling function itself: a local
// allocation, or the result of a package-level constructor of os / bytes / strings / bufio (os.CreateTemp,
// bytes.NewBuffer, ...), which always return a new object. What a library call does to such an object cannot be
// seen by the function's callers.
func freshLibObject(v ssa.Value) bool {
	for depth := 0; depth < 6; depth++ {
		switch x := v.(type) {
		case *ssa.MakeInterface:
			v = x.X
			continue
		case *ssa.ChangeInterface:
			v = x.X
			continue
		case *ssa.Alloc:
			return true
		case *ssa.Extract:
			v = x.Tuple
			continue
		case *ssa.Call:
			callee := x.Common().StaticCallee()
			if callee == nil || callee.Pkg == nil || callee.Signature.Recv() != nil {
				return false
			}
			switch callee.Pkg.Pkg.Path() {
			case "os", "bytes", "strings", "bufio":
				return true
			}
			return false
		}
		return false
	}
	return false
}

// leafGhostKeys: the specification state of a leaf library object (strings.Builder, bytes.Buffer, os.File, ...): a
// library function that is handed such an object may change it (io.Copy into a Builder appends to its content).
func (g *Global) leafGhostKeys(name string) []string {
	var ks []string
	for owner, m := range g.C.GhostFields {
		if owner == name {
			for _, gf := range m {
				ks = append(ks, gf.key())
			}
		}
	}
	sort.Strings(ks)
	return ks
}

// libSiteTargetsKeys is libSiteTargets plus the state keys the call may write directly: the ghost fields of the leaf
// library objects among its arguments.
func (g *Global) libSiteTargetsKeys(callee *ssa.Function, c *ssa.CallCommon) (out []*ssa.Function, keys []string, ok bool) {
	if callee.Pkg == nil || g.inRepo(callee.Pkg.Pkg) || len(callee.Blocks) == 0 {
		return nil, nil, false
	}
	addType := func(t types.Type, iface *types.Interface) {
		nt := namedOf(t)
		if nt == nil || nt.Obj().Pkg() == nil {
			return
		}
		if !g.inRepo(nt.Obj().Pkg()) {
			return
		}
		ms := g.prog.MethodSets.MethodSet(t)
		for i := 0; i < ms.Len(); i++ {
			name := ms.At(i).Obj().Name()
			in := optionalIfaceMethods[name]
			for j := 0; iface != nil && j < iface.NumMethods(); j++ {
				if iface.Method(j).Name() == name {
					in = true
				}
			}
			if in {
				if m := g.prog.MethodValue(ms.At(i)); m != nil {
					out = append(out, m)
				}
			}
		}
	}
	for _, a := range c.Args {
		switch u := a.Type().Underlying().(type) {
		case *types.Basic:
		case *types.Slice:
			if _, isB := u.Elem().Underlying().(*types.Basic); !isB {
				return nil, nil, false
			}
		case *types.Signature:
			if mc, isC := a.(*ssa.MakeClosure); isC {
				out = append(out, mc.Fn.(*ssa.Function))
			} else if fa, isF := a.(*ssa.Function); isF {
				out = append(out, fa)
			} else if cst, isK := a.(*ssa.Const); !isK || cst.Value != nil {
				return nil, nil, false
			}
		case *types.Pointer:
			nt := namedOf(a.Type())
			if nt == nil || nt.Obj().Pkg() == nil {
				return nil, nil, false
			}
			name := nt.Obj().Pkg().Path() + "." + nt.Obj().Name()
			if g.inRepo(nt.Obj().Pkg()) {
				addType(a.Type(), nil)
				return nil, nil, false // an in-repo object handed to a library: be conservative
			}
			if !leafLibTypes[name] {
				return nil, nil, false
			}
			for _, k := range g.leafGhostKeys(name) {
				if freshLibObject(a) {
					k = "fresh:" + k
				}
				keys = append(keys, k)
			}
		case *types.Interface:
			v := a
			for {
				if ci, isCI := v.(*ssa.ChangeInterface); isCI {
					v = ci.X
					continue
				}
				break
			}
			var ct types.Type
			if mi, isMI := v.(*ssa.MakeInterface); isMI {
				ct = mi.X.Type()
			} else if ld, isLoad := v.(*ssa.UnOp); isLoad && ld.Op == token.MUL {
				if gl, isG := ld.X.(*ssa.Global); isG {
					ct = g.ifaceGlobals[gl]
				}
			}
			if cst, isK := v.(*ssa.Const); isK && cst.Value == nil {
				continue
			}
			if ct != nil {
				nt := namedOf(ct)
				if nt != nil && nt.Obj().Pkg() != nil && !g.inRepo(nt.Obj().Pkg()) {
					if leafLibTypes[nt.Obj().Pkg().Path()+"."+nt.Obj().Name()] {
						for _, k := range g.leafGhostKeys(nt.Obj().Pkg().Path() + "." + nt.Obj().Name()) {
							if freshLibObject(v) {
								k = "fresh:" + k
							}
							keys = append(keys, k)
						}
						continue
					}
					// a library wrapper of unknown content: like an unknown dynamic type of the static interface
				} else {
					addType(ct, u)
					continue
				}
			}
			if u.NumMethods() == 0 {
				return nil, nil, false
			}
			// a value produced by a library call can only be (or wrap) an in-repo value that reaches that package
			var restrict map[*types.Named]bool
			src := v
			if ex, isEx := src.(*ssa.Extract); isEx {
				src = ex.Tuple
			}
			if call, isCall := src.(*ssa.Call); isCall {
				if lc := call.Common().StaticCallee(); lc != nil && lc.Pkg != nil && !g.inRepo(lc.Pkg.Pkg) {
					restrict = g.typesReaching(lc.Pkg.Pkg)
				}
			}
			for _, rt := range g.runtimeTypes() {
				if types.Implements(rt, u) {
					if restrict != nil {
						if nt := namedOf(rt); nt == nil || !restrict[nt] {
							continue
						}
					}
					addType(rt, u)
				}
			}
		default:
			return nil, nil, false
		}
	}
	return out, keys, true
}

// typesReaching: the in-repo named types whose values can be held by objects of library package q: a value gets
// into library code only as an argument of a call from in-repo code to a library function of some package p, and
// from there only into packages that p imports (transitively).
func (g *Global) typesReaching(q *types.Package) map[*types.Named]bool {
	if g.flowInto == nil {
		g.flowInto = map[*types.Package]map[*types.Named]bool{}
		add := func(p *types.Package, t types.Type) {
			nt := namedOf(t)
			if nt == nil || nt.Obj().Pkg() == nil || !g.inRepo(nt.Obj().Pkg()) {
				return
			}
			if g.flowInto[p] == nil {
				g.flowInto[p] = map[*types.Named]bool{}
			}
			g.flowInto[p][nt] = true
		}
		for fn := range g.allFns {
			if fn.Pkg == nil || !g.inRepo(fn.Pkg.Pkg) {
				continue
			}
			for _, b := range fn.Blocks {
				for _, in := range b.Instrs {
					ci, ok := in.(ssa.CallInstruction)
					if !ok {
						continue
					}
					callee := ci.Common().StaticCallee()
					var cp *types.Package
					if callee != nil && callee.Pkg != nil {
						cp = callee.Pkg.Pkg
					} else if ci.Common().IsInvoke() {
						if nt := namedOf(ci.Common().Value.Type()); nt != nil {
							cp = nt.Obj().Pkg()
						}
					}
					if cp == nil || g.inRepo(cp) {
						continue
					}
					for _, a := range ci.Common().Args {
						switch u := a.Type().Underlying().(type) {
						case *types.Interface:
							v := a
							if c2, ok := v.(*ssa.ChangeInterface); ok {
								v = c2.X
							}
							if mi, ok := v.(*ssa.MakeInterface); ok {
								add(cp, mi.X.Type())
							} else if u.NumMethods() > 0 {
								for _, rt := range g.runtimeTypes() {
									if types.Implements(rt, u) {
										add(cp, rt)
									}
								}
							} else {
								// unknown value of type any: only types that in-repo code ever boxes into an empty interface
								for _, rt := range g.anyBoxedTypes() {
									add(cp, rt)
								}
							}
						case *types.Pointer, *types.Struct:
							add(cp, a.Type())
						case *types.Signature:
							// closures: their effects are added at the call site
						}
					}
				}
			}
		}
	}
	if r, ok := g.reachMemo[q]; ok {
		return r
	}
	res := map[*types.Named]bool{}
	// q holds values handed to any package p with q in imports*(p)  (including p == q)
	var importsQ func(p *types.Package, seen map[*types.Package]bool) bool
	importsQ = func(p *types.Package, seen map[*types.Package]bool) bool {
		if p == q {
			return true
		}
		if seen[p] {
			return false
		}
		seen[p] = true
		for _, i := range p.Imports() {
			if importsQ(i, seen) {
				return true
			}
		}
		return false
	}
	for p, ts := range g.flowInto {
		if importsQ(p, map[*types.Package]bool{}) {
			for t := range ts {
				if os.Getenv("GOVC_DEBUG_REACH") != "" && strings.Contains(t.String(), os.Getenv("GOVC_DEBUG_REACH")) {
					fmt.Fprintf(os.Stderr, "reach: %s gets into %s through calls into %s\n", t, q.Path(), p.Path())
				}
				res[t] = true
			}
		}
	}
	if g.reachMemo == nil {
		g.reachMemo = map[*types.Package]map[*types.Named]bool{}
	}
	g.reachMemo[q] = res
	return res
}

func (g *Global) anyBoxedTypes() []types.Type {
	if g.anyBoxed != nil {
		return g.anyBoxed
	}
	seen := map[string]bool{}
	g.anyBoxed = []types.Type{}
	for fn := range g.allFns {
		if fn.Pkg == nil || !g.inRepo(fn.Pkg.Pkg) {
			continue
		}
		for _, b := range fn.Blocks {
			for _, in := range b.Instrs {
				if mi, ok := in.(*ssa.MakeInterface); ok {
					if it, ok := mi.Type().Underlying().(*types.Interface); ok && it.NumMethods() == 0 {
						if nt := namedOf(mi.X.Type()); nt != nil && nt.Obj().Pkg() != nil && g.inRepo(nt.Obj().Pkg()) && !seen[mi.X.Type().String()] {
							seen[mi.X.Type().String()] = true
							g.anyBoxed = append(g.anyBoxed, mi.X.Type())
						}
					}
				}
			}
		}
	}
	return g.anyBoxed
}

var defaultCallbackNames = map[string]bool{"Read": true, "Write": true, "Close": true, "WriteTo": true, "ReadFrom": true, "Flush": true,
	"String": true, "Error": true, "Len": true, "ReadByte": true, "WriteString": true, "WriteByte": true, "Unwrap": true, "Less": true, "Swap": true,
	"ServeHTTP": true, "WriteHeader": true, "Header": true, "MarshalJSON": true, "UnmarshalJSON": true, "Seek": true, "ReadAt": true}

// libCallbackTargets: the in-repo methods a library function may call back, judged from its signature: the methods
// of the interface types among its parameters, plus a default set of common method names when it receives an
// interface or an opaque library object (which may wrap an in-repo value).
func (g *Global) libCallbackTargets(f *ssa.Function) []*ssa.Function {
	var ifaces []*types.Interface
	anyVal := false
	seenT := map[types.Type]bool{}
	var visit func(t types.Type, depth int)
	visit = func(t types.Type, depth int) {
		if depth > 4 || seenT[t] {
			return
		}
		seenT[t] = true
		switch u := t.Underlying().(type) {
		case *types.Interface:
			if u.NumMethods() == 0 {
				anyVal = true
				return
			}
			ifaces = append(ifaces, u)
		case *types.Pointer:
			visit(u.Elem(), depth+1)
		case *types.Struct:
			// an opaque library object may wrap in-repo values in its interface-typed fields
			for i := 0; i < u.NumFields(); i++ {
				visit(u.Field(i).Type(), depth+1)
			}
		case *types.Slice:
			visit(u.Elem(), depth+1)
		case *types.Array:
			visit(u.Elem(), depth+1)
		case *types.Map:
			visit(u.Key(), depth+1)
			visit(u.Elem(), depth+1)
		}
	}
	for _, p := range f.Params {
		visit(p.Type(), 0)
	}
	for _, fv := range f.FreeVars {
		visit(fv.Type(), 0)
	}
	if len(ifaces) == 0 && !anyVal {
		return nil
	}
	var sig []string
	for _, i := range ifaces {
		sig = append(sig, i.String())
	}
	sort.Strings(sig)
	key := strings.Join(sig, ";") + fmt.Sprint(anyVal) + "@" + f.Pkg.Pkg.Path()
	if g.cbMemo == nil {
		g.cbMemo = map[string][]*ssa.Function{}
	}
	if r, ok := g.cbMemo[key]; ok {
		return r
	}
	reach := g.typesReaching(f.Pkg.Pkg)
	hooks := map[string]bool{"String": true, "Error": true, "Format": true, "GoString": true, "MarshalJSON": true, "MarshalText": true, "UnmarshalJSON": true, "UnmarshalText": true}
	var out []*ssa.Function
	seenM := map[*ssa.Function]bool{}
	for _, rt := range g.runtimeTypes() {
		nt := namedOf(rt)
		if nt == nil || nt.Obj().Pkg() == nil || !g.inRepo(nt.Obj().Pkg()) || !reach[nt] {
			continue // not an in-repo type, or no value of it is ever handed to that library package
		}
		want := map[string]bool{}
		for _, it := range ifaces {
			if !types.Implements(rt, it) {
				continue
			}
			ioLike := false
			for j := 0; j < it.NumMethods(); j++ {
				want[it.Method(j).Name()] = true
				if n := it.Method(j).Name(); n == "Read" || n == "Write" {
					ioLike = true
				}
			}
			if ioLike {
				for n := range optionalIfaceMethods {
					want[n] = true
				}
			}
		}
		if anyVal {
			for n := range hooks {
				want[n] = true
			}
		}
		if len(want) == 0 {
			continue
		}
		ms := g.prog.MethodSets.MethodSet(rt)
		for i := 0; i < ms.Len(); i++ {
			if want[ms.At(i).Obj().Name()] {
				if m := g.prog.MethodValue(ms.At(i)); m != nil && !seenM[m] {
					seenM[m] = true
					out = append(out, m)
				}
			}
		}
	}
	g.cbMemo[key] = out
	return out
}

func (g *Global) unitForLocked(fn *ssa.Function) *Unit {
	if fn.Pkg == nil {
		if o := fn.Origin(); o != nil && o.Pkg != nil {
			if u := g.C.Units[g.fnKey(o)]; u != nil && u.Trusted {
				return u
			}
		}
		return nil
	}
	return g.C.Units[g.fnKey(fn)]
}

func (g *Global) directWritesLocked(fn *ssa.Function) *writeSet { return g.directWrites(fn) }

// unitModKeys adds the keys named by a contract's modifies clause (whole keys; conservative).
func (g *Global) unitModKeys(u *Unit, fn *ssa.Function, ws *writeSet) {
	if !u.Trusted || u.Opts["allocates"] {
		ws.keys["$alloc"] = true
	}
	for _, it := range u.Modifies {
		it = strings.TrimSpace(it)
		if _, ok := g.C.Ghosts[it]; ok {
			ws.keys["gh!"+it] = true
			continue
		}
		if strings.HasPrefix(it, "key ") {
			ws.keys[strings.TrimSpace(it[4:])] = true
			continue
		}
		// resolve textually: last selector is the field; type from the parameter / package type
		e, err := ParseExpr(it)
		if err != nil {
			ws.all = true
			continue
		}
		if !g.modExprKeys(e, fn, u, ws) {
			if os.Getenv("GOVC_DEBUG") != "" {
				fmt.Fprintf(os.Stderr, "unitModKeys: cannot resolve modifies item %q of %s::%s\n", it, u.Pkg, u.Func)
			}
			ws.all = true
		}
	}
}

func (g *Global) modExprKeys(e Expr, fn *ssa.Function, u *Unit, ws *writeSet) bool {
	switch x := e.(type) {
	case ESel:
		t := g.staticType(x.X, fn, u)
		if t == nil {
			t = g.typeByExpr(x.X, fn, u)
		}
		if t == nil {
			return false
		}
		if p, ok := t.Underlying().(*types.Pointer); ok {
			t = p.Elem()
		}
		st, ok := t.Underlying().(*types.Struct)
		if !ok {
			return false
		}
		if gf := g.C.ghostField(typeName(t), x.Field); gf != nil {
			ws.keys[gf.key()] = true
			return true
		}
		for i := 0; i < st.NumFields(); i++ {
			if st.Field(i).Name() == x.Field {
				g.fieldKeys(t, st.Field(i), ws)
				return true
			}
		}
	case ECall:
		if (x.Fn == "elems" || x.Fn == "mapof") && len(x.Args) == 1 {
			t := g.staticType(x.Args[0], fn, u)
			if t == nil {
				return false
			}
			switch tt := t.Underlying().(type) {
			case *types.Slice:
				g.elemKeys(tt.Elem(), ws)
				return true
			case *types.Map:
				g.mapKeysW(tt, ws)
				return true
			}
		}
	}
	return false
}

// typeByExpr resolves  Type  or  pkg.Type  to a named type.
func (g *Global) typeByExpr(e Expr, fn *ssa.Function, u *Unit) types.Type {
	var from *types.Package
	if fn != nil && fn.Pkg != nil {
		from = fn.Pkg.Pkg
	} else if u != nil {
		from = g.pkgByPath(u.Pkg)
	}
	switch x := e.(type) {
	case EIdent:
		if from != nil {
			if tn, ok := from.Scope().Lookup(x.Name).(*types.TypeName); ok {
				return tn.Type()
			}
		}
	case ESel:
		if id, ok := x.X.(EIdent); ok {
			if p := g.pkgByName(id.Name, from); p != nil {
				if tn, ok := p.Scope().Lookup(x.Field).(*types.TypeName); ok {
					return tn.Type()
				}
			}
		}
	}
	return nil
}

// staticType computes the Go type of a (simple) contract expression over a function's parameters.
func (g *Global) staticType(e Expr, fn *ssa.Function, u *Unit) types.Type {
	switch x := e.(type) {
	case EIdent:
		if fn != nil {
			for _, p := range fn.Params {
				if p.Name() == x.Name {
					return p.Type()
				}
			}
			if fn.Pkg != nil {
				if obj := fn.Pkg.Pkg.Scope().Lookup(x.Name); obj != nil {
					return obj.Type()
				}
			}
		}
		if p := g.pkgByPath(u.Pkg); p != nil {
			if obj := p.Scope().Lookup(x.Name); obj != nil {
				return obj.Type()
			}
		}
	case ESel:
		t := g.staticType(x.X, fn, u)
		if t == nil {
			return nil
		}
		if p, ok := t.Underlying().(*types.Pointer); ok {
			t = p.Elem()
		}
		if st, ok := t.Underlying().(*types.Struct); ok {
			for i := 0; i < st.NumFields(); i++ {
				if st.Field(i).Name() == x.Field {
					ft := st.Field(i).Type()
					if isStruct(ft) {
						return types.NewPointer(ft)
					}
					return ft
				}
			}
		}
	case ECall:
		if x.Fn == "payload" && len(x.Args) == 2 {
			if ts, ok := x.Args[1].(EStr); ok {
				name := strings.TrimPrefix(ts.V, "*")
				var e2 Expr = EIdent{name}
				if i := strings.Index(name, "."); i >= 0 {
					e2 = ESel{EIdent{name[:i]}, name[i+1:]}
				}
				if t := g.typeByExpr(e2, fn, u); t != nil {
					if strings.HasPrefix(ts.V, "*") {
						return types.NewPointer(t)
					}
					return t
				}
			}
		}
	case EIndex:
		t := g.staticType(x.X, fn, u)
		if t == nil {
			return nil
		}
		switch tt := t.Underlying().(type) {
		case *types.Slice:
			if isStruct(tt.Elem()) {
				return types.NewPointer(tt.Elem())
			}
			return tt.Elem()
		case *types.Map:
			return tt.Elem()
		}
	}
	return nil
}

// instrWrites: keys possibly written by one instruction (including callees).
func (g *Global) instrWrites(fn *ssa.Function, in ssa.Instruction) (map[string]bool, bool) {
	ws, _ := g.instrWritesFresh(fn, in)
	return ws.keys, ws.all
}

// instrWritesFresh: like instrWrites, plus the keys written only at objects allocated by fn itself.
func (g *Global) instrWritesFresh(fn *ssa.Function, in ssa.Instruction) (*writeSet, bool) {
	ws := &writeSet{keys: map[string]bool{}, fresh: map[string]bool{}}
	g.mu.Lock()
	g.instrDirect(in, ws)
	g.mu.Unlock()
	if ci, ok := in.(ssa.CallInstruction); ok {
		if _, isB := ci.Common().Value.(*ssa.Builtin); !isB {
			k, all := g.callWrites(fn, ci.Common())
			for x := range k {
				ws.keys[x] = true
			}
			ws.all = ws.all || all
		}
	}
	// iterator state
	if r, ok := in.(*ssa.Next); ok {
		ws.keys["IT!"+r.Iter.Name()] = true
	}
	if a, ok := in.(*ssa.Store); ok {
		if al, ok := a.Addr.(*ssa.Alloc); ok && !al.Heap {
			ws.keys["?local:"+al.Name()] = true
		}
		if ia, ok := a.Addr.(*ssa.IndexAddr); ok {
			if al, ok := ia.X.(*ssa.Alloc); ok && !al.Heap {
				ws.keys["?local:"+al.Name()] = true
			}
		}
	}
	return ws, ws.all
}

// callWrites: write set of a call site (all possible callees by CHA).
func (g *Global) callWrites(fn *ssa.Function, c *ssa.CallCommon) (map[string]bool, bool) {
	res := map[string]bool{}
	all := false
	add := func(f *ssa.Function) {
		if u := g.unitFor(f); u != nil && (u.HasMod || u.Trusted || u.Pure) {
			ws := &writeSet{keys: map[string]bool{}}
			g.mu.Lock()
			g.unitModKeys(u, f, ws)
			g.mu.Unlock()
			for k := range ws.keys {
				res[k] = true
			}
			all = all || ws.all
			if !u.ModInferred {
				return
			}
		}
		if g.isPureLib(f) {
			return
		}
		var root *types.Package
		if fn != nil && fn.Pkg != nil {
			root = fn.Pkg.Pkg
		}
		k, a := g.fnWrites(f, root)
		for x := range k {
			res[x] = true
		}
		all = all || a
	}
	if callee := c.StaticCallee(); callee != nil {
		if u := g.unitFor(callee); (u == nil || (u.Trusted && u.ModInferred)) && !g.isPureLib(callee) {
			if ts, lk, ok := g.libSiteTargetsKeys(callee, c); ok {
				for _, k := range lk {
					res[strings.TrimPrefix(k, "fresh:")] = true
				}
				if u != nil {
					// trusted library contract with `modifies inferred, ...`: its listed items plus what this call site
					// can reach through its arguments
					ws := &writeSet{keys: map[string]bool{}}
					g.mu.Lock()
					g.unitModKeys(u, callee, ws)
					g.mu.Unlock()
					for k := range ws.keys {
						res[k] = true
					}
					all = all || ws.all
				}
				for _, t := range ts {
					add(t)
				}
				return res, all
			}
		}
		add(callee)
		for _, a := range c.Args {
			if mc, ok := a.(*ssa.MakeClosure); ok {
				add(mc.Fn.(*ssa.Function))
			} else if fa, ok := a.(*ssa.Function); ok {
				add(fa)
			}
		}
		return res, all
	}
	if mc, ok := c.Value.(*ssa.MakeClosure); ok {
		add(mc.Fn.(*ssa.Function))
		return res, all
	}
	if key := funcFieldKey(c.Value); key != "" && !c.IsInvoke() {
		if u := g.C.Units[key]; u != nil {
			ws := &writeSet{keys: map[string]bool{}}
			g.mu.Lock()
			g.unitModKeys(u, nil, ws)
			g.mu.Unlock()
			if !u.ModInferred {
				return ws.keys, ws.all
			}
			for k := range ws.keys {
				res[k] = true
			}
			all = all || ws.all
		}
	}
	if c.IsInvoke() {
		key := ifaceKey(c.Value.Type(), c.Method.Name())
		if u := g.C.Units[key]; u != nil {
			ws := &writeSet{keys: map[string]bool{}}
			g.mu.Lock()
			g.unitModKeys(u, nil, ws)
			g.mu.Unlock()
			if !u.ModInferred {
				return ws.keys, ws.all
			}
			// `modifies inferred, ...` on an interface contract: the listed items plus the write sets of the possible targets
			for k := range ws.keys {
				res[k] = true
			}
			all = all || ws.all
		}
	}
	cg := g.callGraph()
	n := cg.Nodes[fn]
	found := false
	if n != nil {
		for _, e := range n.Out {
			if e.Site != nil && e.Site.Common() == c && e.Callee != nil && e.Callee.Func != nil {
				add(e.Callee.Func)
				found = true
			}
		}
	}
	if !found {
		// no known callee (e.g. a func value nobody defines in the program): no effect on verified state
	}
	return res, all
}

// specialiseLibCall: a library function whose parameters are scalars, strings, byte slices and interfaces
// affects verified state only through the methods of the dynamic types of its interface arguments
// (parametricity assumption, listed in evidence). When every interface argument at this call site is a
// MakeInterface of a concrete type, the effects are those of that type's methods.
func (g *Global) specialiseLibCall(callee *ssa.Function, c *ssa.CallCommon, add func(*ssa.Function)) bool {
	if callee.Pkg == nil || g.inRepo(callee.Pkg.Pkg) || len(callee.Blocks) == 0 || g.unitFor(callee) != nil || g.isPureLib(callee) {
		return false
	}
	type conc struct {
		t types.Type
		i *types.Interface
	}
	var concrete []conc
	for _, a := range c.Args {
		switch u := a.Type().Underlying().(type) {
		case *types.Basic:
		case *types.Slice:
			if _, ok := u.Elem().Underlying().(*types.Basic); !ok {
				return false
			}
		case *types.Interface:
			v := a
			for {
				if ci, ok := v.(*ssa.ChangeInterface); ok {
					v = ci.X
					continue
				}
				break
			}
			if ld, isLoad := v.(*ssa.UnOp); isLoad && ld.Op == token.MUL {
				if gl, isG := ld.X.(*ssa.Global); isG {
					if ct := g.ifaceGlobals[gl]; ct != nil {
						concrete = append(concrete, conc{ct, u})
						continue
					}
				}
			}
			mi, ok := v.(*ssa.MakeInterface)
			if !ok {
				if cst, isC := v.(*ssa.Const); isC && cst.Value == nil {
					continue // nil interface
				}
				// unknown dynamic type: any runtime type implementing the parameter's static interface; the library
				// may call that interface's methods and the usual optional ones (WriteTo, ReadFrom, Close, ...)
				if u.NumMethods() == 0 {
					return false
				}
				for _, rt := range g.runtimeTypes() {
					if !types.Implements(rt, u) {
						continue
					}
					ms := g.prog.MethodSets.MethodSet(rt)
					for i := 0; i < ms.Len(); i++ {
						name := ms.At(i).Obj().Name()
						inIface := false
						for j := 0; j < u.NumMethods(); j++ {
							if u.Method(j).Name() == name {
								inIface = true
							}
						}
						// optional fast-path methods (WriteTo, ReadFrom, ...) of *library* types only forward to the peer
						// argument (whose own methods are accounted for) and to what the type's interface methods do
						inRepoType := false
						if nt := namedOf(rt); nt != nil && nt.Obj().Pkg() != nil && g.inRepo(nt.Obj().Pkg()) {
							inRepoType = true
						}
						if inIface || (optionalIfaceMethods[name] && inRepoType) {
							if m := g.prog.MethodValue(ms.At(i)); m != nil {
								add(m)
							}
						}
					}
				}
				continue
			}
			concrete = append(concrete, conc{mi.X.Type(), u})
		default:
			return false
		}
	}
	for _, ct := range concrete {
		ms := g.prog.MethodSets.MethodSet(ct.t)
		for i := 0; i < ms.Len(); i++ {
			name := ms.At(i).Obj().Name()
			inIface := false
			for j := 0; j < ct.i.NumMethods(); j++ {
				if ct.i.Method(j).Name() == name {
					inIface = true
				}
			}
			if !inIface && !optionalIfaceMethods[name] {
				continue
			}
			if !inIface {
				if nt := namedOf(ct.t); nt == nil || nt.Obj().Pkg() == nil || !g.inRepo(nt.Obj().Pkg()) {
					continue // optional fast paths of library types: see above
				}
			}
			if m := g.prog.MethodValue(ms.At(i)); m != nil {
				add(m)
			}
		}
	}
	return true
}

var optionalIfaceMethods = map[string]bool{"WriteTo": true, "ReadFrom": true, "Close": true, "Flush": true, "String": true,
	"Error": true, "Len": true, "ReadByte": true, "WriteString": true, "WriteByte": true, "UnreadByte": true, "Unwrap": true}

func namedOf(t types.Type) *types.Named {
	if p, ok := t.(*types.Pointer); ok {
		t = p.Elem()
	}
	n, _ := types.Unalias(t).(*types.Named)
	return n
}

func (g *Global) runtimeTypes() []types.Type {
	if g.rtTypes == nil {
		g.rtTypes = g.prog.RuntimeTypes()
	}
	return g.rtTypes
}

func (g *Global) noteUse(vc *FnVC, u *Unit, calleeKey string) {
	if vc.unit == nil {
		return
	}
	g.mu.Lock()
	defer g.mu.Unlock()
	k := unitKey(vc.unit.Pkg, vc.unit.Func)
	if g.used[k] == nil {
		g.used[k] = map[string]bool{}
	}
	tag := "verified contract "
	if u.Trusted {
		tag = "TRUSTED contract "
	}
	g.used[k][tag+calleeKey] = true
}

var liveCache sync.Map // *ssa.Function -> []*ssa.BasicBlock

// liveBlocks returns the blocks of fn reachable from its entry when branches on constant conditions
// (`if multiphaseEvaluation {` with the constant false in this build) are followed only on the taken side.
func liveBlocks(fn *ssa.Function) []*ssa.BasicBlock {
	if v, ok := liveCache.Load(fn); ok {
		return v.([]*ssa.BasicBlock)
	}
	var out []*ssa.BasicBlock
	if len(fn.Blocks) > 0 {
		seen := map[*ssa.BasicBlock]bool{}
		var dfs func(b *ssa.BasicBlock)
		dfs = func(b *ssa.BasicBlock) {
			if seen[b] {
				return
			}
			seen[b] = true
			if len(b.Instrs) > 0 {
				if ifi, ok := b.Instrs[len(b.Instrs)-1].(*ssa.If); ok {
					if c, ok := ifi.Cond.(*ssa.Const); ok && c.Value != nil && c.Value.Kind() == constant.Bool {
						if constant.BoolVal(c.Value) {
							dfs(b.Succs[0])
						} else {
							dfs(b.Succs[1])
						}
						return
					}
				}
			}
			for _, s := range b.Succs {
				dfs(s)
			}
		}
		dfs(fn.Blocks[0])
		if fn.Recover != nil {
			dfs(fn.Recover)
		}
		for _, b := range fn.Blocks {
			if seen[b] {
				out = append(out, b)
			}
		}
	}
	liveCache.Store(fn, out)
	return out
}
