#!/bin/bash
# usage: mkseedwt.sh <dir> : scratch worktree of /repo's HEAD without the contract files (hidden from git status/diff)
set -e
d=$1
git -C /repo worktree add -q --detach "$d" HEAD
cd "$d"
fs=$(git ls-files | grep 'zz_contracts.*verif.go$')
git update-index --skip-worktree $fs
rm -f $fs
git status --short | head -3
