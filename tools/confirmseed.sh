#!/bin/bash
# usage: confirmseed.sh <seed dir (with patch.diff, demo_test.go, meta.json)> -> confirms build, suite, demo fail/pass in a scratch worktree
set -u
seed=$1
w=$(mktemp -d /tmp/confirm.XXXXXX)
trap 'cd /; git -C /repo worktree remove --force "$w" >/dev/null 2>&1; rm -rf "$w"' EXIT
rmdir "$w"; git -C /repo worktree add -q --detach "$w" HEAD || exit 2
cd "$w"
pkgdir=$(python3 -c "import json,sys;print(json.load(open('$seed/meta.json')).get('demo_pkg_dir','.'))")
run=$(python3 -c "import json,sys;print(json.load(open('$seed/meta.json')).get('demo_run',''))")
cp "$seed/demo_test.go" "$pkgdir/zz_seed_demo_test.go"
export GOFLAGS= GOPROXY=off
echo "== demo WITHOUT patch (must pass)"; (cd "$pkgdir" && go test -count=1 -run 'Seed|Demo|C[0-9][0-9]' . 2>&1 | tail -3); r0=${PIPESTATUS[0]}
git apply "$seed/patch.diff" || { echo "PATCH DOES NOT APPLY"; exit 3; }
echo "== build"; go build ./... 2>&1 | tail -3
echo "== demo WITH patch (must fail)"; (cd "$pkgdir" && go test -count=1 -run 'Seed|Demo|C[0-9][0-9]' . 2>&1 | tail -5)
echo "== full suite WITH patch (demo excluded)"; rm "$pkgdir/zz_seed_demo_test.go"; go test -count=1 ./... 2>&1 | grep -v "^ok\|no test files" | head -12
echo "== done"
