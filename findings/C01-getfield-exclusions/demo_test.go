package corazawaf

import (
	"regexp"
	"testing"

	"github.com/corazawaf/coraza/v3/internal/collections"
	"github.com/corazawaf/coraza/v3/types/variables"
)

func gfKeys(t *testing.T, tx *Transaction, rv ruleVariableParams) []string {
	var ks []string
	for _, m := range tx.GetField(rv) {
		ks = append(ks, m.Key()+"="+m.Value())
	}
	return ks
}

// F1a: ctl:ruleRemoveTargetById=1;ARGS_GET:/^foo/ stores the exclusion (KeyStr "", KeyRx ^foo); GetField also compares
// lower(KeyStr) with the key, so an argument with an EMPTY name is excluded although the regex does not match it.
func TestGFRegexExclusionDropsEmptyName(t *testing.T) {
	tx := NewWAF().NewTransaction()
	tx.AddGetRequestArgument("", "evil")
	tx.AddGetRequestArgument("bar", "ok")
	tx.RemoveRuleTargetByID(1, variables.ArgsGet, "", regexp.MustCompile("^foo"))
	ex := tx.ruleRemoveTargetByID[1][0]
	rv := ruleVariableParams{Variable: variables.ArgsGet, Exceptions: []ruleVariableException{{ex.KeyStr, ex.KeyRx}}}
	got := gfKeys(t, tx, rv)
	if len(got) != 2 {
		t.Fatalf("regex ^foo matches neither \"\" nor \"bar\": want 2 values, got %q", got)
	}
}

// F1b: SecRule ARGS_GET|!ARGS_GET:/^id$/ : AddVariableNegation stores KeyStr "/^id$/" next to the regex; an argument
// literally named "/^id$/" is dropped although the regex does not match it.
func TestGFRegexExclusionDropsLiteralPattern(t *testing.T) {
	tx := NewWAF().NewTransaction()
	tx.AddGetRequestArgument("/^id$/", "evil")
	r := NewRule()
	if err := r.AddVariable(variables.ArgsGet, "", false); err != nil {
		t.Fatal(err)
	}
	if err := r.AddVariableNegation(variables.ArgsGet, "/^id$/"); err != nil {
		t.Fatal(err)
	}
	got := gfKeys(t, tx, r.variables[0])
	if len(got) != 1 {
		t.Fatalf("regex ^id$ does not match the name \"/^id$/\": want 1 value, got %q", got)
	}
}

// F2: case-sensitive ARGS_GET (build tag coraza.rule.case_sensitive_args_keys): the target ARGS_GET:Foo selects only
// "Foo", the exclusion !ARGS_GET:Foo drops "Foo" AND "foo"; the target ARGS_GET:/^Foo$/ selects "Foo", the exclusion
// !ARGS_GET:/^Foo$/ drops nothing (the regex is run on the lower-cased name).
func TestGFExclusionIgnoresCaseRule(t *testing.T) {
	tx := NewWAF().NewTransaction()
	tx.variables.argsGet = collections.NewCaseSensitiveNamedCollection(variables.ArgsGet)
	tx.AddGetRequestArgument("Foo", "1")
	tx.AddGetRequestArgument("foo", "2")
	sel := gfKeys(t, tx, ruleVariableParams{Variable: variables.ArgsGet, KeyStr: "Foo"})
	if len(sel) != 1 {
		t.Fatalf("setup: ARGS_GET:Foo selects %q", sel)
	}
	got := gfKeys(t, tx, ruleVariableParams{Variable: variables.ArgsGet, Exceptions: []ruleVariableException{{KeyStr: "Foo"}}})
	if len(got) != 1 {
		t.Errorf("ARGS_GET|!ARGS_GET:Foo must keep exactly \"foo\" (what ARGS_GET:Foo does not select), got %q", got)
	}
	rx := regexp.MustCompile("^Foo$")
	selRx := gfKeys(t, tx, ruleVariableParams{Variable: variables.ArgsGet, KeyRx: rx})
	gotRx := gfKeys(t, tx, ruleVariableParams{Variable: variables.ArgsGet, Exceptions: []ruleVariableException{{KeyRx: rx}}})
	if len(selRx)+len(gotRx) != 2 {
		t.Errorf("ARGS_GET:/^Foo$/ selects %q but ARGS_GET|!ARGS_GET:/^Foo$/ keeps %q", selRx, gotRx)
	}
}

// F3: &JSON : Collection(JSON) is nil and GetField returns no datum at all instead of the count "0".
func TestGFCountOfMissingCollection(t *testing.T) {
	tx := NewWAF().NewTransaction()
	got := tx.GetField(ruleVariableParams{Variable: variables.JSON, Count: true})
	if len(got) != 1 || got[0].Value() != "0" {
		t.Fatalf("&JSON: want one datum with value \"0\", got %d data", len(got))
	}
	// for comparison: a variable without collection (Noop) counts to "0"
}
