package auditlog

import (
	"io/fs"
	"os"
	"path/filepath"
	"strings"
	"testing"
	"time"

	"github.com/corazawaf/coraza/v3/experimental/plugins/plugintypes"
)

// C19 / auditlog::(concurrentWriter).Write/post/indexOneLine#1: one record = one line of the index file.
func TestC19ConcurrentIndexOneLine(t *testing.T) {
	dir := t.TempDir()
	target := filepath.Join(dir, "audit.log")
	w := &concurrentWriter{}
	if err := w.Init(plugintypes.AuditLogConfig{Target: target, Dir: dir, FileMode: fs.FileMode(0644), DirMode: fs.FileMode(0755), Formatter: &jsonFormatter{}}); err != nil {
		t.Fatal(err)
	}
	defer w.Close()
	al := &Log{Transaction_: Transaction{UnixTimestamp_: time.Now().UnixNano(), Timestamp_: "ts", ID_: "123", ClientIP_: "1.1.1.1", HostIP_: "2.2.2.2",
		Request_:  &TransactionRequest{Method_: "GET", URI_: "/test", HTTPVersion_: "HTTP/1.1"},
		Response_: &TransactionResponse{Status_: 201}}}
	if err := w.Write(al); err != nil {
		t.Fatal(err)
	}
	idx, _ := os.ReadFile(target)
	if n := strings.Count(string(idx), "\n"); n != 1 {
		t.Errorf("index entry of ONE record spans %d lines: %q", n, string(idx))
	}
}
