#!/usr/bin/env python3
"""usage: addfinding.py <property> <status fixed|known> <obligation> <commit-or-> <what...>"""
import json,sys
prop,status,obl,commit=sys.argv[1:5]; what=' '.join(sys.argv[5:])
p='/verif/known_findings.json'
d=json.load(open(p))
d=[e for e in d if not (e['property']==prop and e['obligation']==obl)]
e={"property":prop,"obligation":obl,"status":status,"what":(f"fixed: property={prop} {commit} {what}" if status=='fixed' else what)}
if status=='fixed': e['commit']=commit
d.append(e)
json.dump(d,open(p,'w'),indent=1)
print(len(d),"entries")
