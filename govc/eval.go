package main

import (
	"fmt"
	"go/constant"
	"go/token"
	"go/types"
	"os"
	"sort"
	"strings"

	"golang.org/x/tools/go/ssa"
)

// Env is the context in which a contract expression is evaluated.
type Env struct {
	vc          *FnVC
	st          *State
	old         *State
	vars        map[string]*Val // explicit bindings (callee parameters at call sites, bound variables)
	loop        *loopInfo
	phiOverride map[string]*Val
	phiVal      map[*ssa.Phi]*Val
	results     []*Val
	atReturn    bool
	resultNames []string
	bound       map[string]bool
	callee      *ssa.Function // when evaluating a callee's contract at a call site
	pkg         *types.Package
	noProgram   bool   // callee env: program variables of the caller are not visible
	callArgs    []*Val // at call "...": the arguments of the matched call, arg(i)
	entryOnly   bool   // inside old(): only parameters, globals and ghost state are visible
	bodyLocals  bool   // names may denote values defined inside the loop body (step / exits / at clauses)
}

func (e *Env) phiByValue(p *ssa.Phi, v *Val) {
	if e.phiVal == nil {
		e.phiVal = map[*ssa.Phi]*Val{}
	}
	e.phiVal[p] = v
}

func (vc *FnVC) envAt(st *State, li *loopInfo) *Env {
	env := &Env{vc: vc, st: st, old: vc.entry, vars: map[string]*Val{}, loop: li, bound: map[string]bool{}}
	if vc.fn.Pkg != nil {
		env.pkg = vc.fn.Pkg.Pkg
	}
	if res := vc.fn.Signature.Results(); res != nil {
		for i := 0; i < res.Len(); i++ {
			env.resultNames = append(env.resultNames, res.At(i).Name())
		}
	}
	return env
}

func (e *Env) withState(st *State) *Env {
	n := *e
	n.st = st
	return &n
}

func (e *Env) bind(name string, v *Val) *Env {
	n := *e
	n.vars = map[string]*Val{}
	for k, x := range e.vars {
		n.vars[k] = x
	}
	n.vars[name] = v
	return &n
}

func (vc *FnVC) evalBool(env *Env, x Expr) (string, error) {
	v, err := vc.evalTerm(env, x)
	if err != nil {
		return "", err
	}
	if v.S == "" || !isBoolVal(v) {
		return "", fmt.Errorf("expression %s is not boolean", x)
	}
	return v.S, nil
}

func isBoolVal(v *Val) bool { return v.T != nil && isBool(v.T) }

var tInt = types.Typ[types.Int]
var tBool = types.Typ[types.Bool]
var tString = types.Typ[types.String]

func (e *Env) parseType(name string) (types.Type, error) {
	switch name {
	case "int":
		return tInt, nil
	case "bool":
		return tBool, nil
	case "string":
		return tString, nil
	case "byte":
		return types.Typ[types.Uint8], nil
	case "int64":
		return types.Typ[types.Int64], nil
	case "any":
		return types.NewInterfaceType(nil, nil), nil
	case "error":
		return types.Universe.Lookup("error").Type(), nil
	case "rune":
		return types.Typ[types.Int32], nil
	case "[]byte":
		return types.NewSlice(types.Typ[types.Uint8]), nil
	case "[]string":
		return types.NewSlice(tString), nil
	case "[]int":
		return types.NewSlice(tInt), nil
	case "ref":
		return types.Typ[types.Uintptr], nil
	}
	if gt := ghostType(name); gt != nil {
		return gt, nil
	}
	ptr := false
	n := name
	if strings.HasPrefix(n, "[]") {
		t, err := e.parseType(n[2:])
		if err != nil {
			return nil, err
		}
		return types.NewSlice(t), nil
	}
	if strings.HasPrefix(n, "*") {
		ptr = true
		n = n[1:]
	}
	var obj types.Object
	if i := strings.Index(n, "."); i >= 0 {
		p := e.vc.G.pkgByName(n[:i], e.pkg)
		if p == nil {
			return nil, fmt.Errorf("unknown package in type %s", name)
		}
		obj = p.Scope().Lookup(n[i+1:])
	} else if e.pkg != nil {
		obj = e.pkg.Scope().Lookup(n)
	}
	if obj == nil {
		return nil, fmt.Errorf("unknown type %s", name)
	}
	tn, ok := obj.(*types.TypeName)
	if !ok {
		return nil, fmt.Errorf("%s is not a type", name)
	}
	if ptr {
		return types.NewPointer(tn.Type()), nil
	}
	return tn.Type(), nil
}

// lookupName resolves an identifier.
func (e *Env) lookupName(name string) (*Val, error) {
	vc := e.vc
	if v, ok := e.vars[name]; ok {
		return v, nil
	}
	// results
	if e.atReturn {
		if name == "result" && len(e.results) >= 1 {
			return e.results[0], nil
		}
		if strings.HasPrefix(name, "result") && len(name) == 7 {
			i := int(name[6] - '0')
			if i < len(e.results) {
				return e.results[i], nil
			}
		}
		for i, rn := range e.resultNames {
			if rn == name && rn != "" && i < len(e.results) {
				return e.results[i], nil
			}
		}
	}
	// ghost variables
	if g, ok := vc.G.C.Ghosts[name]; ok {
		t, err := e.parseType(g.Type)
		if err != nil {
			return nil, err
		}
		key := "gh!" + name
		vc.key(key, sortOf(t), "ghost")
		return &Val{T: t, S: vc.get(e.st, key)}, nil
	}
	if !e.noProgram {
		if e.bodyLocals && e.phiOverride == nil {
			// inside a function body: the definition of the variable that reaches this point
			if v := vc.resolveAtPoint(e, name); v != nil {
				return v, nil
			}
			if v, err := vc.resolveLocal(e, name); err == nil && v != nil {
				return v, nil
			}
		}
		if e.loop != nil {
			if v, ok := e.phiOverride[name]; ok {
				return v, nil
			}
			if v, ok := e.loop.phiVals[name]; ok {
				return v, nil
			}
			// a hidden loop variable (rangeindex, rangeiter) of an ENCLOSING loop: not assigned in this loop, so it
			// is simply its current value; `rangeindex@N` names the one of loop N explicitly
			base, ord := name, 0
			if i := strings.Index(name, "@"); i > 0 {
				base = name[:i]
				fmt.Sscanf(name[i+1:], "%d", &ord)
			}
			if base == "rangeindex" || base == "rangeiter" || ord > 0 {
				var encl []*loopInfo
				for _, l := range vc.loops {
					if l != e.loop && l.blocks[e.loop.header] || (ord > 0 && l.ordinal == ord) {
						encl = append(encl, l)
					}
				}
				sort.Slice(encl, func(i, j int) bool { return len(encl[i].blocks) < len(encl[j].blocks) })
				for _, l := range encl {
					if ord > 0 && l.ordinal != ord {
						continue
					}
					if v, ok := l.phiVals[base]; ok {
						return v, nil
					}
				}
			}
		}
		if v, ok := vc.params[name]; ok {
			return v, nil
		}
		// captured variables of a closure: the name denotes the current content of the captured cell
		for _, fv := range vc.fn.FreeVars {
			if fv.Name() == name {
				p := vc.val(e.st, fv)
				if pt, ok := p.T.Underlying().(*types.Pointer); ok && isStruct(pt.Elem()) {
					return p, nil // struct variables are used through their reference
				}
				return vc.load(e.st, p), nil
			}
		}
		if e.entryOnly {
			// fall through to package-level names
		} else if v, err := vc.resolveLocal(e, name); err == nil && v != nil {
			return v, nil
		} else if err != nil {
			return nil, err
		}
	}
	if name == "rangepos" && e.loop != nil {
		// hidden byte position of a `for i, r := range someString` loop: at the header, the offset of the next rune
		for b := range e.loop.blocks {
			for _, in := range b.Instrs {
				if nx, ok := in.(*ssa.Next); ok && nx.IsString {
					key := "IT!" + nx.Iter.Name()
					if vc.keys[key] != nil {
						return &Val{T: tInt, S: vc.get(e.st, key)}, nil
					}
				}
			}
		}
	}
	// package-level constants and variables
	if e.pkg != nil {
		if obj := e.pkg.Scope().Lookup(name); obj != nil {
			return e.objVal(obj)
		}
	}
	return nil, fmt.Errorf("unknown identifier %q", name)
}

func (e *Env) objVal(obj types.Object) (*Val, error) {
	vc := e.vc
	switch o := obj.(type) {
	case *types.Const:
		switch o.Val().Kind() {
		case constant.Int:
			return &Val{T: o.Type(), S: bigLitStr(o.Val().ExactString())}, nil
		case constant.Bool:
			return &Val{T: o.Type(), S: fmt.Sprint(constant.BoolVal(o.Val()))}, nil
		case constant.String:
			return &Val{T: o.Type(), S: vc.strConstTerm(constant.StringVal(o.Val()))}, nil
		}
	case *types.Var:
		// package-level variable
		for _, p := range vc.G.prog.AllPackages() {
			if p.Pkg == o.Pkg() {
				if g, ok := p.Members[o.Name()].(*ssa.Global); ok {
					gv := vc.globalAddr(g)
					return vc.load(e.st, gv), nil
				}
			}
		}
	}
	return nil, fmt.Errorf("cannot use %s in a contract", obj.Name())
}

func bigLitStr(s string) string {
	if strings.HasPrefix(s, "-") {
		return "(- " + s[1:] + ")"
	}
	return s
}

// resolveAtPoint finds the SSA value a source variable has at the current instruction (at / exits / returns
// clauses): the closest dominating binding among the debug references of the variables of that name whose scope
// contains the point and the phi nodes go/ssa created for that name (merges after if/else, loop headers).
func (vc *FnVC) resolveAtPoint(e *Env, name string) *Val {
	cur := vc.curBlock
	if cur == nil {
		return nil
	}
	curIdx := len(cur.Instrs)
	if vc.curInstr != nil && vc.curInstr.Block() == cur {
		for i, in := range cur.Instrs {
			if in == vc.curInstr {
				curIdx = i
			}
		}
	}
	type cand struct {
		block *ssa.BasicBlock
		idx   int
		val   ssa.Value
		addr  bool
	}
	var cands []cand
	var pos token.Pos
	if vc.curInstr != nil {
		pos = vc.curInstr.Pos()
	}
	syn := vc.fn.Syntax()
	for obj, bs := range vc.debugVal {
		if obj.Name() != name {
			continue
		}
		v, isVar := obj.(*types.Var)
		if !isVar || v.IsField() || (v.Pkg() != nil && v.Parent() == v.Pkg().Scope()) {
			continue
		}
		if pos.IsValid() && syn != nil && pos >= syn.Pos() && pos <= syn.End() && obj.Parent() != nil && obj.Parent() != types.Universe && !obj.Parent().Contains(pos) {
			continue
		}
		for _, b := range bs {
			cands = append(cands, cand{b.block, b.idx, b.val, b.addr})
		}
	}
	if len(cands) == 0 {
		return nil
	}
	// address-taken variables: the cell is the variable
	for _, c := range cands {
		if c.addr {
			pv := vc.val(e.st, c.val)
			if pt, ok := pv.T.Underlying().(*types.Pointer); ok && isStruct(pt.Elem()) {
				return pv
			}
			return vc.load(e.st, pv)
		}
	}
	for _, b := range vc.fn.Blocks {
		for i, in := range b.Instrs {
			phi, ok := in.(*ssa.Phi)
			if !ok {
				break
			}
			if phiAlias(phi.Comment) == name {
				cands = append(cands, cand{b, i - len(b.Instrs) - 1, phi, false}) // before every debug reference of the block
			}
		}
	}
	var best *cand
	for i := range cands {
		c := &cands[i]
		if c.block == cur {
			if c.idx >= curIdx {
				continue
			}
		} else if !c.block.Dominates(cur) {
			continue
		}
		if _, isInstr := c.val.(ssa.Instruction); isInstr {
			if _, done := vc.vals[c.val]; !done {
				if _, isPhi := c.val.(*ssa.Phi); !isPhi || e.phiVal == nil || e.phiVal[c.val.(*ssa.Phi)] == nil {
					continue
				}
			}
		}
		if best == nil || (best.block != c.block && best.block.Dominates(c.block)) || (best.block == c.block && c.idx > best.idx) {
			best = c
		}
	}
	if best == nil {
		return nil
	}
	if pv, ok := best.val.(*ssa.Phi); ok && e.phiVal != nil {
		if v, ok := e.phiVal[pv]; ok {
			return v
		}
	}
	return vc.val(e.st, best.val)
}

// resolveLocal maps a source variable name to its SSA value at the current point (loop header or return).
func (vc *FnVC) resolveLocal(e *Env, name string) (*Val, error) {
	var at *ssa.BasicBlock
	if e.loop != nil {
		at = e.loop.header
	} else {
		at = vc.curBlock
	}
	var best *debugBinding
	for obj, bs := range vc.debugVal {
		if obj.Name() != name {
			continue
		}
		if v, isVar := obj.(*types.Var); !isVar || v.IsField() || (v.Pkg() != nil && v.Parent() == v.Pkg().Scope()) {
			continue // fields and package-level variables are not locals
		}
		if e.bodyLocals && vc.curInstr != nil && vc.curInstr.Pos().IsValid() && obj.Parent() != nil && obj.Parent() != types.Universe {
			// several variables of this name (sibling or nested scopes): only one whose scope contains this point
			if p := vc.curInstr.Pos(); vc.fn.Syntax() != nil && p >= vc.fn.Syntax().Pos() && p <= vc.fn.Syntax().End() && !obj.Parent().Contains(p) {
				continue
			}
		}
		for i := range bs {
			b := &bs[i]
			if b.addr {
				// variable lives in a cell: its address is stable, any binding works
				if best == nil || !best.addr {
					best = b
				}
				continue
			}
			if _, isPhi := b.val.(*ssa.Phi); isPhi && e.loop != nil && b.val.(*ssa.Phi).Block() == e.loop.header {
				continue // handled by phiVals
			}
			def := b.block
			if vi, ok := b.val.(ssa.Instruction); ok && vi.Block() != nil {
				def = vi.Block()
			}
			if at != nil && !e.bodyLocals && !(b.block.Dominates(at) || def.Dominates(at)) {
				continue
			}
			if e.bodyLocals {
				// any definition that dominates the current point is visible
				cur := vc.curBlock
				if cur != nil && !(def.Dominates(cur) || def == cur) {
					continue
				}
				if _, isInstr := b.val.(ssa.Instruction); isInstr {
					if _, done := vc.vals[b.val]; !done {
						continue // defined later in this block: not yet visible at this point
					}
				}
				if e.loop != nil && !e.loop.blocks[def] {
					if _, isLoopVar := e.loop.phiVals[name]; isLoopVar {
						continue // the initialisation before the loop is not the value inside it: header phi
					}
				}
				if best == nil || best.addr || (best.block.Dominates(b.block) && (best.block != b.block || b.idx > best.idx)) {
					best = b
				}
				continue
			}
			if at != nil && b.block == at && e.loop != nil {
				// a reference inside the header block itself: value must be defined outside the loop
				if e.loop.blocks[def] && def != at {
					continue
				}
			}
			if e.loop != nil && e.loop.blocks[def] {
				if _, isParam := b.val.(*ssa.Parameter); !isParam {
					if _, isConst := b.val.(*ssa.Const); !isConst {
						continue
					}
				}
			}
			if best == nil || best.addr {
				if best == nil {
					best = b
				}
				continue
			}
			// prefer the binding deepest in the dominator tree, then the latest
			if best.block.Dominates(b.block) && (best.block != b.block || b.idx > best.idx) {
				best = b
			}
		}
	}
	if !e.bodyLocals && at != nil && (best == nil || !best.addr) {
		// a merge of the variable after an if/else before this point (go/ssa phi named after it) is a later
		// definition than any debug reference that dominates it
		for _, b := range vc.fn.Blocks {
			if b == at || !b.Dominates(at) || (e.loop != nil && e.loop.blocks[b]) {
				continue
			}
			for _, in := range b.Instrs {
				phi, ok := in.(*ssa.Phi)
				if !ok {
					break
				}
				if phiAlias(phi.Comment) != name {
					continue
				}
				if _, done := vc.vals[phi]; !done {
					continue
				}
				if best == nil {
					best = &debugBinding{block: b, idx: -1, val: phi}
					continue
				}
				bdef := best.block
				if vi, ok := best.val.(ssa.Instruction); ok && vi.Block() != nil {
					bdef = vi.Block()
				}
				// the merge is later than `best` when best's value was defined before the merge and best was not
				// referenced after it
				if bdef != b && bdef.Dominates(b) && !(b.Dominates(best.block)) {
					best = &debugBinding{block: b, idx: -1, val: phi}
				}
			}
		}
	}
	if os.Getenv("GOVC_DEBUG_RESOLVE") == name && best != nil {
		fmt.Fprintf(os.Stderr, "resolve %s at %v (cur block %v): best=%s addr=%v block=%d idx=%d\n", name, vc.curInstr, vc.curBlock, best.val.Name(), best.addr, best.block.Index, best.idx)
	}
	if best == nil {
		return nil, nil
	}
	if pv, ok := best.val.(*ssa.Phi); ok && e.phiVal != nil {
		if v, ok := e.phiVal[pv]; ok {
			return v, nil
		}
	}
	v := vc.val(e.st, best.val)
	if best.addr {
		if pt, ok := v.T.Underlying().(*types.Pointer); ok && isStruct(pt.Elem()) {
			return v, nil // struct variables are used through their reference
		}
		return vc.load(e.st, v), nil
	}
	return v, nil
}

func (vc *FnVC) evalTerm(env *Env, x Expr) (*Val, error) {
	switch x := x.(type) {
	case EInt:
		return &Val{T: tInt, S: smtInt(x.V)}, nil
	case EBool:
		return &Val{T: tBool, S: fmt.Sprint(x.V)}, nil
	case EStr:
		return &Val{T: tString, S: vc.strConstTerm(x.V)}, nil
	case ENil:
		return &Val{T: types.Typ[types.UntypedNil], S: "nil"}, nil
	case EIdent:
		return env.lookupName(x.Name)
	case EOld:
		if env.old == nil {
			return nil, fmt.Errorf("old() not available here")
		}
		n := env.withState(env.old)
		n.atReturn = false
		if !env.noProgram {
			// at function entry only the parameters exist: loop variables that shadow a parameter name denote the parameter
			n.loop = nil
			n.phiOverride = nil
			n.phiVal = nil
			n.bodyLocals = false
			n.entryOnly = true
		}
		return vc.evalTerm(n, x.X)
	case EUnary:
		v, err := vc.evalTerm(env, x.X)
		if err != nil {
			return nil, err
		}
		if x.Op == "!" {
			if !isBoolVal(v) {
				return nil, fmt.Errorf("! on non-boolean %s", x.X)
			}
			return &Val{T: tBool, S: smtNot(v.S)}, nil
		}
		return &Val{T: v.T, S: sx("-", v.S)}, nil
	case EBinary:
		return vc.evalBinary(env, x)
	case ESel:
		// package-qualified constant?
		if id, ok := x.X.(EIdent); ok {
			if _, err := env.lookupName(id.Name); err != nil {
				if p := vc.G.pkgByName(id.Name, env.pkg); p != nil {
					if obj := p.Scope().Lookup(x.Field); obj != nil {
						return env.objVal(obj)
					}
					return nil, fmt.Errorf("unknown %s.%s", id.Name, x.Field)
				}
			}
		}
		v, err := vc.evalTerm(env, x.X)
		if err != nil {
			return nil, err
		}
		return vc.selectField(env, v, x.Field)
	case EIndex:
		v, err := vc.evalTerm(env, x.X)
		if err != nil {
			return nil, err
		}
		i, err := vc.evalTerm(env, x.I)
		if err != nil {
			return nil, err
		}
		return vc.indexVal(env, v, i)
	case ESlice:
		v, err := vc.evalTerm(env, x.X)
		if err != nil {
			return nil, err
		}
		lo := "0"
		if x.Lo != nil {
			l, err := vc.evalTerm(env, x.Lo)
			if err != nil {
				return nil, err
			}
			lo = l.S
		}
		if isString(v.T) {
			hi := sx("gs.len", v.S)
			if x.Hi != nil {
				h, err := vc.evalTerm(env, x.Hi)
				if err != nil {
					return nil, err
				}
				hi = h.S
			}
			vc.usedSub = true
			return &Val{T: v.T, S: sx("gs.sub", v.S, lo, hi)}, nil
		}
		return nil, fmt.Errorf("slice expression on %s not supported in contracts", v.T)
	case ECall:
		return vc.evalCall(env, x)
	case EQuant:
		n := *env
		n.vars = map[string]*Val{}
		for k, v := range env.vars {
			n.vars[k] = v
		}
		n.bound = map[string]bool{}
		for k := range env.bound {
			n.bound[k] = true
		}
		var bs []string
		var guards []string
		for _, b := range x.Vars {
			t, err := env.parseType(b.Type)
			if err != nil {
				return nil, err
			}
			s := sortOf(t)
			bn := "q!" + b.Name
			if s == "" {
				// struct types usable as map keys are quantified as their key datatype
				kn, _, ok := structKeySort(t)
				if !ok {
					return nil, fmt.Errorf("cannot quantify over %s", b.Type)
				}
				vc.mapKeys(types.NewMap(t, types.Typ[types.Bool]))
				u := t.Underlying().(*types.Struct)
				kv := &Val{T: t, S: bn, Fields: map[string]*Val{}}
				for i := 0; i < u.NumFields(); i++ {
					f := u.Field(i)
					kv.Fields[f.Name()] = &Val{T: f.Type(), S: sx(kn+"."+f.Name(), bn)}
					kv.Order = append(kv.Order, f.Name())
				}
				n.vars[b.Name] = kv
				n.bound[bn] = true
				bs = append(bs, "("+bn+" "+kn+")")
				continue
			}
			n.vars[b.Name] = &Val{T: t, S: bn}
			n.bound[bn] = true
			bs = append(bs, "("+bn+" "+s+")")
			if b.Type == "byte" {
				guards = append(guards, smtAnd(sx("<=", "0", bn), sx("<=", bn, "255")))
			}
		}
		// trigger hygiene: if a bound int variable j indexes a slice s directly (s[j]), quantify over the
		// absolute index k = off(s)+j instead, so that the memory select carries no arithmetic in its pattern.
		for _, b := range x.Vars {
			if b.Type != "int" {
				continue
			}
			if sl := findSliceIndexedBy(x.Body, b.Name); sl != nil {
				if sv, err := vc.evalTerm(env, sl); err == nil && sv.S != "" {
					if _, ok := sv.T.Underlying().(*types.Slice); ok {
						bn := "q!" + b.Name
						n.vars[b.Name] = &Val{T: tInt, S: sx("-", bn, sx("s.off", sv.S))}
					}
				}
			}
		}
		body, err := vc.evalBool(&n, x.Body)
		if err != nil {
			return nil, err
		}
		q := "exists"
		if x.Forall {
			q = "forall"
			body = smtImp(smtAnd(guards...), body)
		} else {
			body = smtAnd(append(guards, body)...)
		}
		return &Val{T: tBool, S: fmt.Sprintf("(%s (%s) %s)", q, strings.Join(bs, " "), body)}, nil
	}
	return nil, fmt.Errorf("unsupported expression %s", x)
}

// findSliceIndexedBy returns an expression X such that X[name] occurs in e and X does not mention name.
func findSliceIndexedBy(e Expr, name string) Expr {
	var found Expr
	var walk func(e Expr)
	mentions := func(e Expr) bool { return containsIdent(e.String(), name) }
	walk = func(e Expr) {
		if found != nil || e == nil {
			return
		}
		switch x := e.(type) {
		case EIndex:
			if id, ok := x.I.(EIdent); ok && id.Name == name && !mentions(x.X) {
				found = x.X
				return
			}
			walk(x.X)
			walk(x.I)
		case EUnary:
			walk(x.X)
		case EBinary:
			walk(x.L)
			walk(x.R)
		case ESel:
			walk(x.X)
		case ESlice:
			walk(x.X)
			walk(x.Lo)
			walk(x.Hi)
		case ECall:
			for _, a := range x.Args {
				walk(a)
			}
		case EQuant:
			walk(x.Body)
		case EOld:
			walk(x.X)
		}
	}
	walk(e)
	return found
}

func (vc *FnVC) selectField(env *Env, v *Val, field string) (*Val, error) {
	if v.Fields != nil {
		if f, ok := v.Fields[field]; ok {
			return f, nil
		}
		return nil, fmt.Errorf("no field %s", field)
	}
	t := v.T
	if p, ok := t.Underlying().(*types.Pointer); ok {
		t = p.Elem()
	} else if isStruct(t) && v.S != "" && !strings.HasPrefix(v.S, "undef.") {
		// a struct value represented by the reference of the object holding it
	} else {
		return nil, fmt.Errorf("field %s of non-pointer, non-struct value (%s) term %s", field, v.T, v.S)
	}
	if gf := vc.G.C.ghostField(typeName(t), field); gf != nil {
		k, gt, err := vc.ghostFieldKey(env, gf)
		if err != nil {
			return nil, err
		}
		return &Val{T: gt, S: sx("select", vc.get(env.st, k), v.S)}, nil
	}
	u, ok := t.Underlying().(*types.Struct)
	if !ok {
		return nil, fmt.Errorf("field %s of non-struct %s", field, t)
	}
	for i := 0; i < u.NumFields(); i++ {
		f := u.Field(i)
		if f.Name() != field {
			continue
		}
		if isStruct(f.Type()) {
			return &Val{T: types.NewPointer(f.Type()), S: vc.embRef(t, f.Name(), v.S)}, nil
		}
		k := vc.fieldKey(t, f)
		if k == nil {
			return nil, fmt.Errorf("field %s has unsupported type", field)
		}
		return &Val{T: f.Type(), S: sx("select", vc.get(env.st, k.Name), v.S)}, nil
	}
	// promoted fields through embedded structs
	for i := 0; i < u.NumFields(); i++ {
		f := u.Field(i)
		if f.Embedded() {
			var inner *Val
			if isStruct(f.Type()) {
				inner = &Val{T: types.NewPointer(f.Type()), S: vc.embRef(t, f.Name(), v.S)}
			} else if _, isP := f.Type().Underlying().(*types.Pointer); isP {
				k := vc.fieldKey(t, f)
				inner = &Val{T: f.Type(), S: sx("select", vc.get(env.st, k.Name), v.S)}
			}
			if inner != nil {
				if r, err := vc.selectField(env, inner, field); err == nil {
					return r, nil
				}
			}
		}
	}
	return nil, fmt.Errorf("type %s has no field %s", t, field)
}

func (vc *FnVC) indexVal(env *Env, v, i *Val) (*Val, error) {
	switch t := v.T.Underlying().(type) {
	case *types.Basic:
		if isString(v.T) {
			return &Val{T: types.Typ[types.Uint8], S: sx("gs.at", v.S, i.S)}, nil
		}
	case *types.Slice:
		if isStruct(t.Elem()) {
			return &Val{T: types.NewPointer(t.Elem()), S: vc.elemRef(t.Elem(), sx("s.base", v.S), sx("+", sx("s.off", v.S), i.S))}, nil
		}
		k := vc.memKey(t.Elem())
		if k == nil {
			return nil, fmt.Errorf("unsupported slice element type")
		}
		idx := sx("+", sx("s.off", v.S), i.S)
		if suf := " " + sx("s.off", v.S) + ")"; strings.HasPrefix(i.S, "(- q!") && strings.HasSuffix(i.S, suf) && !strings.Contains(strings.TrimSuffix(strings.TrimPrefix(i.S, "(- "), suf), " ") {
			idx = strings.TrimSuffix(strings.TrimPrefix(i.S, "(- "), suf)
		}
		return &Val{T: t.Elem(), S: sx("select", sx("select", vc.get(env.st, k.Name), sx("s.base", v.S)), idx)}, nil
	case *types.Array:
		return &Val{T: t.Elem(), S: sx("select", v.S, i.S)}, nil
	case *types.Map:
		_, val, _ := vc.mapKeys(t)
		raw := sx("select", sx("select", vc.get(env.st, val.Name), v.S), i.S)
		if isStruct(t.Elem()) {
			return &Val{T: types.NewPointer(t.Elem()), S: raw}, nil
		}
		return &Val{T: t.Elem(), S: raw}, nil
	}
	return nil, fmt.Errorf("cannot index %s", v.T)
}

func (vc *FnVC) coerceNil(a, b *Val) (*Val, *Val) {
	isNil := func(v *Val) bool { return v.S == "nil" }
	if isNil(a) && !isNil(b) {
		return &Val{T: b.T, S: zeroTerm(sortOf(b.T))}, b
	}
	if isNil(b) && !isNil(a) {
		return a, &Val{T: a.T, S: zeroTerm(sortOf(a.T))}
	}
	return a, b
}

func (vc *FnVC) evalBinary(env *Env, x EBinary) (*Val, error) {
	l, err := vc.evalTerm(env, x.L)
	if err != nil {
		return nil, err
	}
	r, err := vc.evalTerm(env, x.R)
	if err != nil {
		return nil, err
	}
	switch x.Op {
	case "&&", "||", "==>", "<==>":
		if !isBoolVal(l) || !isBoolVal(r) {
			return nil, fmt.Errorf("%s on non-boolean operands in %s", x.Op, x)
		}
		switch x.Op {
		case "&&":
			return &Val{T: tBool, S: smtAnd(l.S, r.S)}, nil
		case "||":
			return &Val{T: tBool, S: smtOr(l.S, r.S)}, nil
		case "==>":
			return &Val{T: tBool, S: smtImp(l.S, r.S)}, nil
		default:
			return &Val{T: tBool, S: sx("=", l.S, r.S)}, nil
		}
	case "==", "!=":
		l, r = vc.coerceNil(l, r)
		var eq string
		if l.Fields != nil || r.Fields != nil {
			return nil, fmt.Errorf("comparison of struct values in contracts is not supported: %s", x)
		}
		ls, rs := sortOf(l.T), sortOf(r.T)
		if ls != rs {
			return nil, fmt.Errorf("sort mismatch in %s: %s vs %s", x, ls, rs)
		}
		if ls == "Str" {
			if env.mentionsBound(l.S) || env.mentionsBound(r.S) {
				vc.usedExtQ = true
				eq = sx("=", l.S, r.S)
			} else {
				eq = vc.strEq(l.S, r.S)
			}
		} else if ls == "Slice" && (r.S == zeroTerm("Slice") || l.S == zeroTerm("Slice")) {
			o := l
			if l.S == zeroTerm("Slice") {
				o = r
			}
			eq = sx("=", sx("s.base", o.S), "0")
		} else {
			eq = smtEq(l.S, r.S)
		}
		if x.Op == "!=" {
			eq = smtNot(eq)
		}
		return &Val{T: tBool, S: eq}, nil
	case "<", "<=", ">", ">=":
		return &Val{T: tBool, S: sx(x.Op, l.S, r.S)}, nil
	case "+":
		if isString(l.T) {
			vc.usedCat = true
			return &Val{T: l.T, S: sx("gs.cat", l.S, r.S)}, nil
		}
		return &Val{T: tInt, S: sx("+", l.S, r.S)}, nil
	case "-", "*":
		return &Val{T: tInt, S: sx(x.Op, l.S, r.S)}, nil
	case "/":
		return &Val{T: tInt, S: sx("div", l.S, r.S)}, nil
	case "%":
		return &Val{T: tInt, S: sx("mod", l.S, r.S)}, nil
	}
	return nil, fmt.Errorf("unsupported operator %s", x.Op)
}

func (e *Env) mentionsBound(term string) bool {
	for b := range e.bound {
		if strings.Contains(term, b) {
			return true
		}
	}
	return false
}

func (vc *FnVC) evalCall(env *Env, c ECall) (*Val, error) {
	var args []*Val
	evalArgs := func() error {
		for _, a := range c.Args {
			v, err := vc.evalTerm(env, a)
			if err != nil {
				return err
			}
			args = append(args, v)
		}
		return nil
	}
	switch c.Fn {
	case "len", "cap":
		if err := evalArgs(); err != nil {
			return nil, err
		}
		if len(args) != 1 {
			return nil, fmt.Errorf("%s takes one argument", c.Fn)
		}
		v := args[0]
		switch t := v.T.Underlying().(type) {
		case *types.Basic:
			if isString(v.T) {
				return &Val{T: tInt, S: sx("gs.len", v.S)}, nil
			}
		case *types.Slice:
			return &Val{T: tInt, S: sx("s."+c.Fn, v.S)}, nil
		case *types.Map:
			_, _, ln := vc.mapKeys(t)
			return &Val{T: tInt, S: smtIte(sx("=", v.S, "0"), "0", sx("select", vc.get(env.st, ln.Name), v.S))}, nil
		case *types.Array:
			return &Val{T: tInt, S: fmt.Sprint(t.Len())}, nil
		}
		return nil, fmt.Errorf("len of %s", v.T)
	case "ite":
		if err := evalArgs(); err != nil {
			return nil, err
		}
		if len(args) != 3 {
			return nil, fmt.Errorf("ite takes three arguments")
		}
		a, b := vc.coerceNil(args[1], args[2])
		return &Val{T: a.T, S: smtIte(args[0].S, a.S, b.S)}, nil
	case "strdata": // strdata(s): the data pointer of the string s (unsafe.StringData)
		if err := evalArgs(); err != nil {
			return nil, err
		}
		if len(args) != 1 || !isString(args[0].T) {
			return nil, fmt.Errorf("strdata(s) takes one string")
		}
		return &Val{T: types.NewPointer(types.Typ[types.Uint8]), S: vc.strData(args[0].S)}, nil
	case "visited": // visited(k): in an invariant of a `range` loop over a map, k has already been yielded
		if err := evalArgs(); err != nil {
			return nil, err
		}
		if env.loop == nil || len(args) != 1 {
			return nil, fmt.Errorf("visited(k) is only meaningful in the invariant of a range-over-map loop")
		}
		// the innermost enclosing loop (this one included) that ranges over a map with this key sort
		var encl []*loopInfo
		for _, l := range vc.loops {
			if l.blocks[env.loop.header] {
				encl = append(encl, l)
			}
		}
		sort.Slice(encl, func(i, j int) bool { return len(encl[i].blocks) < len(encl[j].blocks) })
		for _, l := range encl {
			if nx, ok := l.header.Instrs[0].(*ssa.Next); ok && !nx.IsString {
				_ = nx
			}
			for _, in := range l.header.Instrs {
				if nx, ok := in.(*ssa.Next); ok && !nx.IsString {
					key := "IT!" + nx.Iter.Name()
					if vc.keys[key] != nil {
						return &Val{T: tBool, S: sx("select", vc.get(env.st, key), args[0].S)}, nil
					}
				}
			}
		}
		return nil, fmt.Errorf("visited(): no map iterator in this loop or an enclosing one")
	case "arg": // arg(i): in an `at call` clause, the i-th argument of the matched call
		if len(c.Args) != 1 {
			return nil, fmt.Errorf("arg(i)")
		}
		ix, ok := c.Args[0].(EInt)
		if !ok || int(ix.V) >= len(env.callArgs) {
			return nil, fmt.Errorf("arg(%s): no such call argument here", c.Args[0])
		}
		return env.callArgs[ix.V], nil
	case "prev": // prev(e): in a step clause, e evaluated with the loop variables at the start of the iteration
		if len(c.Args) != 1 || env.loop == nil {
			return nil, fmt.Errorf("prev(e) is only meaningful in a loop step clause")
		}
		n := *env
		n.phiOverride = nil
		n.phiVal = nil
		n.bodyLocals = false
		if env.loop.headSt != nil {
			n.st = env.loop.headSt
		}
		return vc.evalTerm(&n, c.Args[0])
	case "unit": // unit(c): the one-byte string
		if err := evalArgs(); err != nil {
			return nil, err
		}
		vc.usedCat = true
		return &Val{T: tString, S: sx("gs.unit", args[0].S)}, nil
	case "str": // str(b): the bytes of a []byte as a string value
		if err := evalArgs(); err != nil {
			return nil, err
		}
		if len(args) != 1 || !isByteSlice(args[0].T) {
			return nil, fmt.Errorf("str() takes a []byte")
		}
		return &Val{T: tString, S: vc.bytesStr(env.st, args[0])}, nil
	case "in": // in(x, S)
		if err := evalArgs(); err != nil {
			return nil, err
		}
		return &Val{T: tBool, S: sx("select", args[1].S, args[0].S)}, nil
	case "add", "remove": // add(S, x), remove(S, x)
		if err := evalArgs(); err != nil {
			return nil, err
		}
		b := "true"
		if c.Fn == "remove" {
			b = "false"
		}
		return &Val{T: args[0].T, S: sx("store", args[0].S, args[1].S, b)}, nil
	case "put": // put(M, k, v)
		if err := evalArgs(); err != nil {
			return nil, err
		}
		return &Val{T: args[0].T, S: sx("store", args[0].S, args[1].S, args[2].S)}, nil
	case "get": // get(M, k)
		if err := evalArgs(); err != nil {
			return nil, err
		}
		return &Val{T: tInt, S: sx("select", args[0].S, args[1].S)}, nil
	case "emptyset":
		if len(c.Args) != 1 {
			return nil, fmt.Errorf("emptyset(\"StrSet\")")
		}
		sn, _ := c.Args[0].(EStr)
		gt := ghostType(sn.V)
		if gt == nil {
			return nil, fmt.Errorf("unknown set type")
		}
		return &Val{T: gt, S: zeroTerm(sortOf(gt))}, nil
	case "has": // has(m, k): key membership
		if err := evalArgs(); err != nil {
			return nil, err
		}
		mt, ok := args[0].T.Underlying().(*types.Map)
		if !ok || len(args) != 2 {
			return nil, fmt.Errorf("has(map, key)")
		}
		dom, _, _ := vc.mapKeys(mt)
		return &Val{T: tBool, S: smtAnd(smtNot(sx("=", args[0].S, "0")), sx("select", sx("select", vc.get(env.st, dom.Name), args[0].S), vc.mapKeyTerm(env.st, mt, args[1])))}, nil
	case "base": // base(s): identity of the backing array of a slice
		if err := evalArgs(); err != nil {
			return nil, err
		}
		return &Val{T: tInt, S: sx("s.base", args[0].S)}, nil
	case "off":
		if err := evalArgs(); err != nil {
			return nil, err
		}
		return &Val{T: tInt, S: sx("s.off", args[0].S)}, nil
	case "ref": // ref(p): the object reference of a pointer, as an int
		if err := evalArgs(); err != nil {
			return nil, err
		}
		return &Val{T: tInt, S: args[0].S}, nil
	case "deref": // deref(p): the value a pointer to a scalar points to (*p), in the state of the enclosing expression
		if err := evalArgs(); err != nil {
			return nil, err
		}
		if len(args) != 1 {
			return nil, fmt.Errorf("deref(p)")
		}
		if _, ok := args[0].T.Underlying().(*types.Pointer); !ok {
			return nil, fmt.Errorf("deref of non-pointer %s", c.Args[0])
		}
		return vc.load(env.st, args[0]), nil
	case "fresh": // fresh(p): p was allocated during the call
		if err := evalArgs(); err != nil {
			return nil, err
		}
		if env.old == nil {
			return nil, fmt.Errorf("fresh() needs an old state")
		}
		t := args[0].S
		if sortOf(args[0].T) == "Slice" {
			t = sx("s.base", t)
		}
		return &Val{T: tBool, S: sx(">", sx("ref.root", t), vc.get(env.old, "$alloc"))}, nil
	case "typeof": // typeof(iface) == tag("pkg.Type")
		if err := evalArgs(); err != nil {
			return nil, err
		}
		return &Val{T: tInt, S: sx("i.tag", args[0].S)}, nil
	case "tag":
		if len(c.Args) != 1 {
			return nil, fmt.Errorf("tag(\"type\")")
		}
		s, ok := c.Args[0].(EStr)
		if !ok {
			return nil, fmt.Errorf("tag needs a string literal")
		}
		t, err := env.parseType(s.V)
		if err != nil {
			return nil, err
		}
		return &Val{T: tInt, S: vc.typeTag(t)}, nil
	case "isnil": // nil-ness of an interface/pointer/slice/map
		if err := evalArgs(); err != nil {
			return nil, err
		}
		switch sortOf(args[0].T) {
		case "Iface":
			return &Val{T: tBool, S: sx("=", sx("i.tag", args[0].S), "0")}, nil
		case "Slice":
			return &Val{T: tBool, S: sx("=", sx("s.base", args[0].S), "0")}, nil
		}
		return &Val{T: tBool, S: sx("=", args[0].S, "0")}, nil
	case "payload": // payload(iface, "*pkg.T"): the dynamic value of an interface as the given pointer type
		if len(c.Args) != 2 {
			return nil, fmt.Errorf("payload(iface, \"type\")")
		}
		iv, err := vc.evalTerm(env, c.Args[0])
		if err != nil {
			return nil, err
		}
		s, ok := c.Args[1].(EStr)
		if !ok {
			return nil, fmt.Errorf("payload needs a type string")
		}
		t, err := env.parseType(s.V)
		if err != nil {
			return nil, err
		}
		return vc.unboxPayload(env.st, iv.S, t), nil
	}
	// user spec functions
	sf, ok := vc.G.C.Specs[c.Fn]
	if !ok {
		return nil, fmt.Errorf("unknown function %s in contract", c.Fn)
	}
	if err := evalArgs(); err != nil {
		return nil, err
	}
	if len(args) != len(sf.Params) {
		return nil, fmt.Errorf("%s expects %d arguments", c.Fn, len(sf.Params))
	}
	penv := *env
	if sf.Pkg != "" {
		if p := vc.G.pkgByPath(sf.Pkg); p != nil {
			penv.pkg = p
		}
	}
	rt, err := penv.parseType(sf.Result)
	if err != nil {
		return nil, err
	}
	if sf.Body != nil {
		// macro expansion
		n := penv
		n.vars = map[string]*Val{}
		n.noProgram = true
		n.loop = nil
		n.atReturn = false
		n.bound = env.bound
		for i, p := range sf.Params {
			pt, err := penv.parseType(p.Type)
			if err != nil {
				return nil, err
			}
			a := args[i]
			if a.S == "nil" {
				a = &Val{T: pt, S: zeroTerm(sortOf(pt))}
			}
			n.vars[p.Name] = &Val{T: pt, S: a.S, Fields: a.Fields, Order: a.Order}
		}
		v, err := vc.evalTerm(&n, sf.Body)
		if err != nil {
			return nil, fmt.Errorf("in %s: %v", sf.Name, err)
		}
		return &Val{T: rt, S: v.S}, nil
	}
	var sorts, terms []string
	for i, p := range sf.Params {
		pt, err := penv.parseType(p.Type)
		if err != nil {
			return nil, err
		}
		sorts = append(sorts, sortOf(pt))
		a := args[i]
		if a.S == "nil" {
			a = &Val{T: pt, S: zeroTerm(sortOf(pt))}
		}
		terms = append(terms, a.S)
	}
	name := "spec." + sf.Name
	vc.declareFun(name, sorts, sortOf(rt))
	vc.useSpec(sf)
	return &Val{T: rt, S: sx(name, terms...)}, nil
}

// useSpec makes sure axioms mentioning an uninterpreted spec function are emitted once it is used.
func (vc *FnVC) useSpec(sf *SpecFunc) {
	if vc.usedSpecs == nil {
		vc.usedSpecs = map[string]bool{}
	}
	vc.usedSpecs[sf.Name] = true
}

// modItem evaluates a modifies item to (state key, allowed ref | "*").
func (vc *FnVC) modItem(env *Env, item string) (string, string, error) {
	item = strings.TrimSpace(item)
	if g, ok := vc.G.C.Ghosts[item]; ok {
		t, err := env.parseType(g.Type)
		if err != nil {
			return "", "", err
		}
		vc.key("gh!"+item, sortOf(t), "ghost")
		return "gh!" + item, "*", nil
	}
	if strings.HasPrefix(item, "key ") { // raw state key
		k := strings.TrimSpace(item[4:])
		if ki := vc.G.keyInfo(k); ki != nil {
			vc.keyFrom(ki)
			return k, "*", nil
		}
		return "", "", fmt.Errorf("unknown state key %s", k)
	}
	e, err := ParseExpr(item)
	if err != nil {
		return "", "", err
	}
	switch x := e.(type) {
	case ESel:
		// Type.field (all objects)  or  expr.field (one object)
		if id, ok := x.X.(EIdent); ok {
			if _, err := env.lookupName(id.Name); err != nil {
				t, terr := env.parseType(id.Name)
				if terr != nil {
					return "", "", err
				}
				k, kerr := vc.fieldKeyByName(t, x.Field)
				return k, "*", kerr
			}
		}
		if q, ok := x.X.(ESel); ok {
			if id, ok := q.X.(EIdent); ok {
				if _, err := env.lookupName(id.Name); err != nil {
					if t, terr := env.parseType(id.Name + "." + q.Field); terr == nil {
						k, kerr := vc.fieldKeyByName(t, x.Field)
						return k, "*", kerr
					}
				}
			}
		}
		v, err := vc.evalTerm(env, x.X)
		if err != nil {
			return "", "", err
		}
		t := v.T
		if p, ok := t.Underlying().(*types.Pointer); ok {
			t = p.Elem()
		}
		k, err := vc.fieldKeyByName(t, x.Field)
		return k, v.S, err
	case ECall:
		if x.Fn == "elems" && len(x.Args) == 1 { // elems(s): the backing array of slice s
			v, err := vc.evalTerm(env, x.Args[0])
			if err != nil {
				return "", "", err
			}
			sl, ok := v.T.Underlying().(*types.Slice)
			if !ok {
				return "", "", fmt.Errorf("elems of non-slice")
			}
			k := vc.memKey(sl.Elem())
			if k == nil {
				return "", "", fmt.Errorf("elems of struct slice: list the element fields instead")
			}
			return k.Name, sx("s.base", v.S), nil
		}
		if x.Fn == "mapof" && len(x.Args) == 1 {
			v, err := vc.evalTerm(env, x.Args[0])
			if err != nil {
				return "", "", err
			}
			mt, ok := v.T.Underlying().(*types.Map)
			if !ok {
				return "", "", fmt.Errorf("mapof of non-map")
			}
			vc.mapKeys(mt)
			d, _, _, _, _ := mapKeyNames(mt)
			return d, v.S, nil // caller expands to val and len keys too
		}
	}
	return "", "", fmt.Errorf("unsupported modifies item %q", item)
}

func (vc *FnVC) ghostFieldKey(env *Env, gf *GhostField) (string, types.Type, error) {
	e2 := *env
	if p := vc.G.pkgByPath(gf.Pkg); p != nil {
		e2.pkg = p
	}
	gt, err := e2.parseType(gf.Type)
	if err != nil {
		return "", nil, err
	}
	vc.key(gf.key(), "(Array Int "+sortOf(gt)+")", "field")
	vc.G.mu.Lock()
	vc.G.regKey(gf.key(), "(Array Int "+sortOf(gt)+")", "field")
	vc.G.mu.Unlock()
	return gf.key(), gt, nil
}

func (vc *FnVC) fieldKeyByName(t types.Type, field string) (string, error) {
	if gf := vc.G.C.ghostField(typeName(t), field); gf != nil {
		env := vc.envAt(vc.entry, nil)
		k, _, err := vc.ghostFieldKey(env, gf)
		return k, err
	}
	u, ok := t.Underlying().(*types.Struct)
	if !ok {
		return "", fmt.Errorf("%s is not a struct", t)
	}
	for i := 0; i < u.NumFields(); i++ {
		if u.Field(i).Name() == field {
			k := vc.fieldKey(t, u.Field(i))
			if k == nil {
				return "", fmt.Errorf("field %s is an embedded struct", field)
			}
			return k.Name, nil
		}
	}
	return "", fmt.Errorf("no field %s in %s", field, t)
}
