package coraza

import "testing"

// C04/C12: the verdict must not depend on Go's map iteration order. Two values of one argument name share the
// key string (same pointer); the transformation cache distinguishes them only by their position in the list
// returned by the collection, and that position depends on the iteration order of the other keys.
func TestC04CachePositionCollision(t *testing.T) {
	waf, err := NewWAF(NewWAFConfig().WithDirectives(`
SecRuleEngine On
SecRule ARGS_GET "@contains zzz" "id:1,phase:1,t:lowercase,pass"
SecRule ARGS_GET "@contains attack" "id:2,phase:1,t:lowercase,deny,status:403"
`))
	if err != nil {
		t.Fatal(err)
	}
	missed := 0
	const n = 300
	for i := 0; i < n; i++ {
		tx := waf.NewTransaction()
		tx.ProcessURI("/?b=x&c=y&d=z&a=1&a=attack", "GET", "HTTP/1.1")
		if tx.ProcessRequestHeaders() == nil {
			missed++
		}
		tx.ProcessLogging()
		tx.Close()
	}
	if missed != 0 {
		t.Fatalf("the same request was NOT interrupted in %d of %d repetitions", missed, n)
	}
}
