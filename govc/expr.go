package main

import (
	"fmt"
	"strconv"
	"strings"
	"unicode"
)

// Contract expression AST.

type Expr interface{ String() string }

type (
	EInt   struct{ V int64 }
	EStr   struct{ V string }
	EBool  struct{ V bool }
	ENil   struct{}
	EIdent struct{ Name string }
	EUnary struct {
		Op string
		X  Expr
	}
	EBinary struct {
		Op   string
		L, R Expr
	}
	ESel struct {
		X     Expr
		Field string
	}
	EIndex struct{ X, I Expr }
	ESlice struct{ X, Lo, Hi Expr }
	ECall  struct {
		Fn   string
		Args []Expr
	}
	EQuant struct {
		Forall bool
		Vars   []Binder
		Body   Expr
	}
	EOld struct{ X Expr }
)

type Binder struct{ Name, Type string }

func (e EInt) String() string    { return strconv.FormatInt(e.V, 10) }
func (e EStr) String() string    { return strconv.Quote(e.V) }
func (e EBool) String() string   { return strconv.FormatBool(e.V) }
func (e ENil) String() string    { return "nil" }
func (e EIdent) String() string  { return e.Name }
func (e EUnary) String() string  { return e.Op + e.X.String() }
func (e EBinary) String() string { return "(" + e.L.String() + " " + e.Op + " " + e.R.String() + ")" }
func (e ESel) String() string    { return e.X.String() + "." + e.Field }
func (e EIndex) String() string  { return e.X.String() + "[" + e.I.String() + "]" }
func (e ESlice) String() string {
	lo, hi := "", ""
	if e.Lo != nil {
		lo = e.Lo.String()
	}
	if e.Hi != nil {
		hi = e.Hi.String()
	}
	return e.X.String() + "[" + lo + ":" + hi + "]"
}
func (e ECall) String() string {
	var a []string
	for _, x := range e.Args {
		a = append(a, x.String())
	}
	return e.Fn + "(" + strings.Join(a, ", ") + ")"
}
func (e EQuant) String() string {
	q := "exists"
	if e.Forall {
		q = "forall"
	}
	var b []string
	for _, v := range e.Vars {
		b = append(b, v.Name+" "+v.Type)
	}
	return "(" + q + " " + strings.Join(b, ", ") + " :: " + e.Body.String() + ")"
}
func (e EOld) String() string { return "old(" + e.X.String() + ")" }

// ---- tokenizer ----

type tok struct {
	kind string // int str ident op eof
	text string
	ival int64
}

func tokenize(s string) ([]tok, error) {
	var toks []tok
	i := 0
	for i < len(s) {
		c := s[i]
		switch {
		case c == ' ' || c == '\t' || c == '\n':
			i++
		case c >= '0' && c <= '9':
			j := i
			for j < len(s) && (isIdentChar(s[j])) {
				j++
			}
			v, err := strconv.ParseInt(s[i:j], 0, 64)
			if err != nil {
				return nil, fmt.Errorf("bad int %q", s[i:j])
			}
			toks = append(toks, tok{kind: "int", text: s[i:j], ival: v})
			i = j
		case c == '"':
			j := i + 1
			for j < len(s) && s[j] != '"' {
				if s[j] == '\\' {
					j++
				}
				j++
			}
			if j >= len(s) {
				return nil, fmt.Errorf("unterminated string")
			}
			v, err := strconv.Unquote(s[i : j+1])
			if err != nil {
				return nil, fmt.Errorf("bad string %s", s[i:j+1])
			}
			toks = append(toks, tok{kind: "str", text: v})
			i = j + 1
		case c == '\'':
			j := i + 1
			for j < len(s) && s[j] != '\'' {
				if s[j] == '\\' {
					j++
				}
				j++
			}
			if j >= len(s) {
				return nil, fmt.Errorf("unterminated char")
			}
			v, _, _, err := strconv.UnquoteChar(s[i+1:j], '\'')
			if err != nil {
				return nil, fmt.Errorf("bad char %s", s[i:j+1])
			}
			toks = append(toks, tok{kind: "int", text: s[i : j+1], ival: int64(v)})
			i = j + 1
		case isIdentStart(c):
			j := i
			for j < len(s) && isIdentChar(s[j]) {
				j++
			}
			toks = append(toks, tok{kind: "ident", text: s[i:j]})
			i = j
		default:
			ops := []string{"<==>", "==>", "::", "==", "!=", "<=", ">=", "&&", "||", "<<", ">>", "..",
				"+", "-", "*", "/", "%", "<", ">", "!", "(", ")", "[", "]", ",", ":", ".", "&", "|", "^"}
			found := false
			for _, op := range ops {
				if strings.HasPrefix(s[i:], op) {
					toks = append(toks, tok{kind: "op", text: op})
					i += len(op)
					found = true
					break
				}
			}
			if !found {
				return nil, fmt.Errorf("unexpected character %q", c)
			}
		}
	}
	toks = append(toks, tok{kind: "eof"})
	return toks, nil
}

func isIdentStart(c byte) bool { return c == '_' || c == '$' || unicode.IsLetter(rune(c)) }
func isIdentChar(c byte) bool  { return isIdentStart(c) || (c >= '0' && c <= '9') || c == '@' }

// ---- parser ----

type parser struct {
	toks []tok
	pos  int
}

func ParseExpr(s string) (e Expr, err error) {
	toks, err := tokenize(s)
	if err != nil {
		return nil, err
	}
	p := &parser{toks: toks}
	defer func() {
		if r := recover(); r != nil {
			if pe, ok := r.(parseErr); ok {
				err = fmt.Errorf("%s in %q", string(pe), s)
				return
			}
			panic(r)
		}
	}()
	e = p.expr()
	if p.peek().kind != "eof" {
		p.fail("unexpected %q", p.peek().text)
	}
	return e, nil
}

type parseErr string

func (p *parser) fail(f string, a ...any) { panic(parseErr(fmt.Sprintf(f, a...))) }
func (p *parser) peek() tok               { return p.toks[p.pos] }
func (p *parser) next() tok               { t := p.toks[p.pos]; p.pos++; return t }
func (p *parser) isOp(s string) bool      { t := p.peek(); return t.kind == "op" && t.text == s }
func (p *parser) accept(s string) bool {
	if p.isOp(s) {
		p.pos++
		return true
	}
	return false
}
func (p *parser) expect(s string) {
	if !p.accept(s) {
		p.fail("expected %q, got %q", s, p.peek().text)
	}
}

func (p *parser) expr() Expr { return p.iff() }

func (p *parser) iff() Expr {
	l := p.imp()
	for p.accept("<==>") {
		r := p.imp()
		l = EBinary{"<==>", l, r}
	}
	return l
}

func (p *parser) imp() Expr {
	l := p.or()
	if p.accept("==>") {
		r := p.imp()
		return EBinary{"==>", l, r}
	}
	return l
}

func (p *parser) or() Expr {
	l := p.and()
	for p.accept("||") {
		l = EBinary{"||", l, p.and()}
	}
	return l
}

func (p *parser) and() Expr {
	l := p.cmp()
	for p.accept("&&") {
		l = EBinary{"&&", l, p.cmp()}
	}
	return l
}

var cmpOps = map[string]bool{"==": true, "!=": true, "<": true, "<=": true, ">": true, ">=": true}

func (p *parser) cmp() Expr {
	l := p.add()
	var res Expr
	for p.peek().kind == "op" && cmpOps[p.peek().text] {
		op := p.next().text
		r := p.add()
		c := EBinary{op, l, r}
		if res == nil {
			res = c
		} else {
			res = EBinary{"&&", res, c}
		}
		l = r
	}
	if res == nil {
		return l
	}
	return res
}

func (p *parser) add() Expr {
	l := p.mul()
	for p.isOp("+") || p.isOp("-") || p.isOp("|") || p.isOp("^") {
		op := p.next().text
		l = EBinary{op, l, p.mul()}
	}
	return l
}

func (p *parser) mul() Expr {
	l := p.unary()
	for p.isOp("*") || p.isOp("/") || p.isOp("%") || p.isOp("<<") || p.isOp(">>") || p.isOp("&") {
		op := p.next().text
		l = EBinary{op, l, p.unary()}
	}
	return l
}

func (p *parser) unary() Expr {
	if p.accept("!") {
		return EUnary{"!", p.unary()}
	}
	if p.accept("-") {
		return EUnary{"-", p.unary()}
	}
	return p.postfix()
}

func (p *parser) postfix() Expr {
	x := p.primary()
	for {
		switch {
		case p.accept("."):
			t := p.next()
			if t.kind != "ident" {
				p.fail("expected field name")
			}
			// qualified call like strings.ToLower(x)
			if id, ok := x.(EIdent); ok && p.isOp("(") && isLower(id.Name) {
				p.next()
				args := p.args()
				x = ECall{id.Name + "." + t.text, args}
				continue
			}
			x = ESel{x, t.text}
		case p.accept("["):
			var lo, hi Expr
			if p.isOp(":") {
				p.next()
				if !p.isOp("]") {
					hi = p.expr()
				}
				p.expect("]")
				x = ESlice{x, nil, hi}
				continue
			}
			lo = p.expr()
			if p.accept(":") {
				if !p.isOp("]") {
					hi = p.expr()
				}
				p.expect("]")
				x = ESlice{x, lo, hi}
				continue
			}
			p.expect("]")
			x = EIndex{x, lo}
		default:
			return x
		}
	}
}

func isLower(s string) bool { return s != "" && s[0] >= 'a' && s[0] <= 'z' }

func (p *parser) args() []Expr {
	var args []Expr
	if p.accept(")") {
		return args
	}
	for {
		args = append(args, p.expr())
		if p.accept(")") {
			return args
		}
		p.expect(",")
	}
}

func (p *parser) typeName() string {
	// type := ident | '[' ']' type | '*' type | ident '.' ident
	var b strings.Builder
	for {
		if p.accept("[") {
			p.expect("]")
			b.WriteString("[]")
			continue
		}
		if p.accept("*") {
			b.WriteString("*")
			continue
		}
		break
	}
	t := p.next()
	if t.kind != "ident" {
		p.fail("expected type name, got %q", t.text)
	}
	b.WriteString(t.text)
	if p.isOp(".") {
		p.next()
		t2 := p.next()
		b.WriteString("." + t2.text)
	}
	return b.String()
}

func (p *parser) primary() Expr {
	t := p.next()
	switch t.kind {
	case "int":
		return EInt{t.ival}
	case "str":
		return EStr{t.text}
	case "ident":
		switch t.text {
		case "true":
			return EBool{true}
		case "false":
			return EBool{false}
		case "nil":
			return ENil{}
		case "forall", "exists":
			var vars []Binder
			for {
				n := p.next()
				if n.kind != "ident" {
					p.fail("expected bound variable")
				}
				ty := p.typeName()
				vars = append(vars, Binder{n.text, ty})
				if p.accept(",") {
					continue
				}
				break
			}
			p.expect("::")
			body := p.expr()
			return EQuant{t.text == "forall", vars, body}
		case "old":
			p.expect("(")
			x := p.expr()
			p.expect(")")
			return EOld{x}
		}
		if p.isOp("(") {
			p.next()
			return ECall{t.text, p.args()}
		}
		return EIdent{t.text}
	case "op":
		if t.text == "(" {
			x := p.expr()
			p.expect(")")
			return x
		}
	}
	p.fail("unexpected token %q", t.text)
	return nil
}
