package main

import (
	"fmt"
	"go/constant"
	"go/types"
	"strings"

	"golang.org/x/tools/go/ssa"
)

// call models one call site. instr is the Call instruction (nil for deferred calls).
func (vc *FnVC) call(st *State, c *ssa.CallCommon, instr *ssa.Call, rt types.Type) *Val {
	if rt == nil {
		rt = c.Signature().Results()
	}
	if b, ok := c.Value.(*ssa.Builtin); ok {
		return vc.builtin(st, b, c, instr, rt)
	}
	var args []*Val
	for _, a := range c.Args {
		args = append(args, vc.val(st, a))
	}
	if c.IsInvoke() {
		recv := vc.val(st, c.Value)
		vc.safety(st, "nil", vc.srcTextCall(c, instr)+".recv", smtNot(sx("=", sx("i.tag", recv.S), "0")))
		key := ifaceKey(c.Value.Type(), c.Method.Name())
		if u := vc.G.C.Units[key]; u != nil {
			sig := c.Method.Type().(*types.Signature)
			names := []string{"recv"}
			vals := []*Val{recv}
			for i := 0; i < sig.Params().Len(); i++ {
				n := sig.Params().At(i).Name()
				if n == "" || n == "_" {
					n = fmt.Sprintf("arg%d", i)
				}
				names = append(names, n)
				vals = append(vals, args[i])
			}
			return vc.applyContract(st, u, nil, c.Method.Pkg(), sig, names, vals, rt, key, c, instr)
		}
		ws, all := vc.G.callWrites(vc.fn, c)
		return vc.havocCall(st, ws, all, rt, "invoke "+c.Method.Name(), args)
	}
	callee := c.StaticCallee()
	var bindings []*Val
	if callee == nil {
		if mc, ok := c.Value.(*ssa.MakeClosure); ok {
			callee = mc.Fn.(*ssa.Function)
		}
	}
	if mc, ok := c.Value.(*ssa.MakeClosure); ok {
		for _, b := range mc.Bindings {
			bindings = append(bindings, vc.val(st, b))
		}
	}
	if callee == nil {
		fv := vc.val(st, c.Value)
		vc.safety(st, "nil", vc.srcTextCall(c, instr)+".func", smtNot(sx("=", fv.S, "0")))
		// a function stored in a struct field may have a (trusted) contract: funcfield:<Struct>.<field>
		if key := funcFieldKey(c.Value); key != "" {
			if u := vc.G.C.Units[key]; u != nil {
				sig := c.Signature()
				names := []string{"fn"}
				vals := []*Val{fv}
				for i := 0; i < sig.Params().Len(); i++ {
					n := sig.Params().At(i).Name()
					if n == "" || n == "_" {
						n = fmt.Sprintf("arg%d", i)
					}
					names = append(names, n)
					vals = append(vals, args[i])
				}
				var pkg *types.Package
				if vc.fn.Pkg != nil {
					pkg = vc.fn.Pkg.Pkg
				}
				return vc.applyContract(st, u, nil, pkg, sig, names, vals, rt, key, c, instr)
			}
		}
		ws, all := vc.G.callWrites(vc.fn, c)
		res := vc.havocCall(st, ws, all, rt, "dynamic call", args)
		if par, ok := c.Value.(*ssa.Parameter); ok && vc.unit != nil {
			for _, vs := range vc.unit.Visits {
				if vs.Func != par.Name() || vs.Arg >= len(args) {
					continue
				}
				ck, rk := "CALLS!"+vs.Func, "CALLSOK!"+vs.Func
				if vc.keys[ck] == nil {
					vc.key(ck, "(Array Int Bool)", "ghost")
					vc.fact(sx("=", entrySym(ck), "((as const (Array Int Bool)) false)"))
					vc.key(rk, "Bool", "ghost")
					vc.fact(entrySym(rk))
				}
				a := args[vs.Arg]
				ref := a.S
				if sortOf(a.T) == "Iface" {
					ref = sx("i.pay", a.S)
				}
				vc.set(st, ck, sx("store", vc.get(st, ck), ref, "true"))
				if res != nil && isBoolVal(res) {
					vc.set(st, rk, smtAnd(vc.get(st, rk), res.S))
				}
			}
		}
		return res
	}
	if callee.Name() == "ssa:wrapnilchk" && len(args) > 0 {
		return args[0]
	}
	// receiver nil check for pointer-receiver methods is part of the callee's implicit precondition
	if v := vc.libModel(st, callee, c, args, rt, instr); v != nil {
		if v == noResult {
			return nil
		}
		return v
	}
	if u := vc.G.unitFor(callee); u != nil {
		var names []string
		var vals []*Val
		for i, p := range callee.Params {
			names = append(names, p.Name())
			vals = append(vals, args[i])
		}
		for i, fvr := range callee.FreeVars {
			if i < len(bindings) {
				names = append(names, fvr.Name())
				vals = append(vals, bindings[i])
			}
		}
		var pkg *types.Package
		if callee.Pkg != nil {
			pkg = callee.Pkg.Pkg
		}
		if callee.Signature.Recv() != nil && len(args) > 0 {
			if _, isP := callee.Params[0].Type().Underlying().(*types.Pointer); isP && !vc.knownNonNil(c.Args[0]) {
				vc.safety(st, "nil", vc.srcTextCall(c, instr)+".recv", smtNot(sx("=", args[0].S, "0")))
			}
		}
		return vc.applyContract(st, u, callee, pkg, callee.Signature, names, vals, rt, vc.G.fnKey(callee), c, instr)
	}
	if vc.G.isPureLib(callee) {
		// a closure handed to the library may be run by it: its effects happen here
		for _, a := range c.Args {
			if mc, ok := a.(*ssa.MakeClosure); ok {
				ws, all := vc.G.fnWrites(mc.Fn.(*ssa.Function), vc.rootPkg())
				vc.havocSet(st, ws, all)
			} else if _, isSig := a.Type().Underlying().(*types.Signature); isSig {
				if _, isConst := a.(*ssa.Const); !isConst {
					if f, isFn := a.(*ssa.Function); isFn {
						ws, all := vc.G.fnWrites(f, vc.rootPkg())
						vc.havocSet(st, ws, all)
					} else {
						vc.note("function value passed to %s: unknown effects, whole heap havocked", callee.String())
						vc.havocSet(st, map[string]bool{}, true)
					}
				}
			}
		}
		// escaping addresses of fields may still be written by the callee
		vc.escapeArgs(st, args)
		r := vc.freshVal(st, rt, "r."+callee.Name())
		vc.errorsAreNonNil(st, callee, r)
		return r
	}
	ws, all := vc.G.callWrites(vc.fn, c)
	if callee.Signature.Recv() != nil && len(args) > 0 && callee.Pkg != nil && vc.G.inRepo(callee.Pkg.Pkg) {
		if _, isP := callee.Params[0].Type().Underlying().(*types.Pointer); isP && !vc.knownNonNil(c.Args[0]) && isStruct(callee.Params[0].Type().Underlying().(*types.Pointer).Elem()) {
			vc.safety(st, "nil", vc.srcTextCall(c, instr)+".recv", smtNot(sx("=", args[0].S, "0")))
		}
	}
	return vc.havocCall(st, ws, all, rt, callee.String(), args)
}

var noResult = &Val{}

// funcFieldKey: the contract key of a call through a function-typed struct field.
func funcFieldKey(v ssa.Value) string {
	var st types.Type
	var idx int
	switch x := v.(type) {
	case *ssa.Field:
		st, idx = x.X.Type(), x.Field
	case *ssa.UnOp:
		fa, ok := x.X.(*ssa.FieldAddr)
		if !ok {
			return ""
		}
		st, idx = fa.X.Type().Underlying().(*types.Pointer).Elem(), fa.Field
	default:
		return ""
	}
	nt := namedOf(st)
	us, ok := st.Underlying().(*types.Struct)
	if nt == nil || !ok || nt.Obj().Pkg() == nil {
		return ""
	}
	return nt.Obj().Pkg().Path() + "::funcfield:" + nt.Obj().Name() + "." + us.Field(idx).Name()
}

// ifaceKey is the contract key of an interface method: <pkgpath>::iface:<Type>.<Method>.
func ifaceKey(t types.Type, method string) string {
	if n, ok := types.Unalias(t).(*types.Named); ok && n.Obj().Pkg() != nil {
		return n.Obj().Pkg().Path() + "::iface:" + n.Obj().Name() + "." + method
	}
	return "iface:" + t.String() + "." + method
}

func (vc *FnVC) knownNonNil(v ssa.Value) bool {
	switch v.(type) {
	case *ssa.Alloc, *ssa.FieldAddr, *ssa.IndexAddr, *ssa.Global, *ssa.MakeClosure, *ssa.MakeMap, *ssa.MakeSlice:
		return true
	}
	if vc.fn.Signature.Recv() != nil && len(vc.fn.Params) > 0 && v == ssa.Value(vc.fn.Params[0]) {
		return true
	}
	return false
}

func (vc *FnVC) srcTextCall(c *ssa.CallCommon, instr *ssa.Call) string {
	if instr != nil {
		return vc.srcText(instr, instr)
	}
	if vc.curInstr != nil {
		return vc.srcText(nil, vc.curInstr)
	}
	return c.String()
}

func (vc *FnVC) errorsAreNonNil(st *State, callee *ssa.Function, r *Val) {
	// fmt.Errorf and errors.New never return nil
	full := callee.String()
	if full == "fmt.Errorf" || full == "errors.New" {
		if r != nil && r.S != "" {
			vc.assume(st, smtNot(sx("=", sx("i.tag", r.S), "0")))
		}
	}
}

// escapeArgs havocs cells whose address is passed to a callee we know nothing about.
func (vc *FnVC) escapeArgs(st *State, args []*Val) {
	for _, a := range args {
		if a == nil || a.Addr == nil {
			continue
		}
		switch a.Addr.Kind {
		case "field", "elem", "local", "global", "arrelem":
			s := sortOf(a.Addr.Elem)
			if s == "" {
				continue
			}
			n := vc.freshName("esc")
			vc.declare(n, s)
			vc.storeAddr(st, a.Addr, n)
			vc.assume(st, vc.typeFacts(st, a.Addr.Elem, n))
		}
	}
}

func (vc *FnVC) havocCall(st *State, ws map[string]bool, all bool, rt types.Type, what string, args []*Val) *Val {
	if all {
		vc.note("call to %s: unknown effects, whole heap havocked", what)
	}
	vc.havocSet(st, ws, all)
	vc.escapeArgs(st, args)
	if rt == nil {
		return nil
	}
	if tt, ok := rt.(*types.Tuple); ok && tt.Len() == 0 {
		return nil
	}
	return vc.freshVal(st, rt, "r")
}

// applyContract uses the contract of a callee at a call site.
func (vc *FnVC) applyContract(st *State, u *Unit, callee *ssa.Function, pkg *types.Package, sig *types.Signature,
	names []string, vals []*Val, rt types.Type, calleeKey string, c *ssa.CallCommon, instr *ssa.Call) *Val {
	env := &Env{vc: vc, st: st, vars: map[string]*Val{}, bound: map[string]bool{}, noProgram: true, pkg: pkg}
	for i, n := range names {
		env.vars[n] = vals[i]
	}
	if res := sig.Results(); res != nil {
		for i := 0; i < res.Len(); i++ {
			env.resultNames = append(env.resultNames, res.At(i).Name())
		}
	}
	short := calleeKey
	if i := strings.LastIndex(short, "/"); i >= 0 {
		short = short[i+1:]
	}
	// 1. preconditions
	env.old = st
	for i, r := range u.Requires {
		t, err := vc.evalBool(env, r.E)
		if err != nil {
			vc.contractError("requires of %s: %q: %v", calleeKey, r.Text, err)
			continue
		}
		lbl := r.Name
		if lbl == "" {
			lbl = fmt.Sprintf("requires%d", i+1)
		}
		vc.oblige(st, "pre", short+"/"+lbl, t, "precondition of "+short+": "+r.Text)
		vc.assume(st, t)
	}
	old := st.clone()
	// 2. effects
	if u.HasMod || u.Trusted || u.Pure {
		if u.ModInferred && callee != nil {
			ws, all := vc.G.fnWrites(callee, vc.rootPkg())
			if u.Trusted && c != nil {
				// library function with a trusted contract: the inferred part is specialised to this call site
				if sw, sall := vc.G.callWrites(vc.fn, c); true {
					ws, all = sw, sall
				}
			}
			if all {
				vc.note("call to %s: unknown effects, whole heap havocked", short)
			}
			vc.havocSet(st, ws, all)
		} else if u.ModInferred && callee == nil && c != nil {
			// interface / func-field contract with `modifies inferred, ...`: the write sets of the possible targets
			ws, all := vc.G.callWrites(vc.fn, c)
			if all {
				vc.note("call to %s: unknown effects, whole heap havocked", short)
			}
			vc.havocSet(st, ws, all)
		}
		for _, it := range u.Modifies {
			k, ref, err := vc.modItem(env, it)
			if err != nil {
				vc.contractError("modifies of %s: %q: %v", calleeKey, it, err)
				continue
			}
			ks := []string{k}
			if strings.HasPrefix(k, "MD!") {
				ks = append(ks, "MV!"+k[3:], "ML!"+k[3:])
				for _, kk := range ks {
					if vc.keys[kk] == nil {
						if ki := vc.G.keyInfo(kk); ki != nil {
							vc.keyFrom(ki)
						}
					}
				}
			}
			for _, kk := range ks {
				ki := vc.keys[kk]
				if ki == nil {
					continue
				}
				if ref == "*" || !strings.HasPrefix(ki.Sort, "(Array Int ") {
					vc.havocKey(st, kk)
					continue
				}
				inner := strings.TrimSuffix(strings.TrimPrefix(ki.Sort, "(Array Int "), ")")
				n := vc.freshName("mod")
				vc.declare(n, inner)
				vc.set(st, kk, sx("store", vc.get(st, kk), ref, n))
			}
		}
		if u.Opts["allocates"] || !u.Trusted {
			pre := vc.allocTerm(st)
			vc.havocKey(st, "$alloc")
			vc.assume(st, sx(">=", vc.get(st, "$alloc"), pre))
		}
	} else {
		var ws map[string]bool
		var all bool
		if callee != nil {
			ws, all = vc.G.fnWrites(callee, vc.rootPkg())
			ws = copySet(ws)
		} else {
			ws, all = vc.G.callWrites(vc.fn, c)
		}
		if all {
			vc.note("call to %s: unknown effects, whole heap havocked", short)
		}
		vc.havocSet(st, ws, all)
	}
	vc.escapeArgs(st, vals)
	// 3. results and postconditions
	var results []*Val
	var ret *Val
	if rt != nil {
		if tt, ok := rt.(*types.Tuple); ok {
			if tt.Len() > 0 {
				ret = vc.freshVal(st, rt, "r."+sanitize(short))
				for _, k := range ret.Order {
					results = append(results, ret.Fields[k])
				}
			}
		} else {
			ret = vc.freshVal(st, rt, "r."+sanitize(short))
			results = []*Val{ret}
		}
	}
	penv := *env
	penv.st = st
	penv.old = old
	penv.results = results
	penv.atReturn = true
	for _, e := range u.Ensures {
		t, err := vc.evalBool(&penv, e.E)
		if err != nil {
			vc.contractError("ensures of %s: %q: %v", calleeKey, e.Text, err)
			continue
		}
		vc.assume(st, t)
	}
	vc.G.noteUse(vc, u, calleeKey)
	if instr != nil && u.Trusted && u.Opts["allocates"] && ret != nil && ret.S != "" {
		if _, isP := ret.T.Underlying().(*types.Pointer); isP && vc.ownedValue(instr) {
			for _, e := range u.Ensures {
				if strings.Contains(e.Text, "fresh(result)") {
					vc.owned = append(vc.owned, ret.S)
					break
				}
			}
		}
	}
	return ret
}

func copySet(m map[string]bool) map[string]bool {
	n := make(map[string]bool, len(m))
	for k, v := range m {
		n[k] = v
	}
	return n
}

// ---------- builtins ----------

func (vc *FnVC) builtin(st *State, b *ssa.Builtin, c *ssa.CallCommon, instr *ssa.Call, rt types.Type) *Val {
	var args []*Val
	for _, a := range c.Args {
		args = append(args, vc.val(st, a))
	}
	switch b.Name() {
	case "len", "cap":
		x := args[0]
		switch t := c.Args[0].Type().Underlying().(type) {
		case *types.Basic:
			return &Val{T: tInt, S: sx("gs.len", x.S)}
		case *types.Slice:
			return &Val{T: tInt, S: sx("s."+b.Name(), x.S)}
		case *types.Map:
			_, _, ln := vc.mapKeys(t)
			r := vc.define("maplen", "Int", smtIte(sx("=", x.S, "0"), "0", sx("select", vc.get(st, ln.Name), x.S)))
			vc.assume(st, sx("<=", "0", r))
			// the length is the cardinality of the domain: an empty map has no keys, a key implies len >= 1
			dom, _, _ := vc.mapKeys(t)
			_, _, _, ks, _ := mapKeyNames(t)
			d := sx("select", vc.get(st, dom.Name), x.S)
			vc.assume(st, fmt.Sprintf("(forall ((q %s)) (! (=> (select %s q) (>= %s 1)) :pattern ((select %s q))))", ks, d, r, d))
			return &Val{T: tInt, S: r}
		case *types.Array:
			return &Val{T: tInt, S: fmt.Sprint(t.Len())}
		case *types.Pointer:
			if at, ok := t.Elem().Underlying().(*types.Array); ok {
				return &Val{T: tInt, S: fmt.Sprint(at.Len())}
			}
		}
		return vc.freshVal(st, tInt, "len")
	case "append":
		return vc.appendOp(st, c, args, rt)
	case "copy":
		return vc.copyOp(st, c, args)
	case "delete":
		m, k := args[0], args[1]
		mt := c.Args[0].Type().Underlying().(*types.Map)
		dom, _, ln := vc.mapKeys(mt)
		d := vc.get(st, dom.Name)
		kt := vc.mapKeyTerm(st, mt, k)
		had := smtAnd(smtNot(sx("=", m.S, "0")), sx("select", sx("select", d, m.S), kt))
		l := vc.get(st, ln.Name)
		vc.set(st, ln.Name, sx("store", l, m.S, sx("-", sx("select", l, m.S), smtIte(had, "1", "0"))))
		vc.set(st, dom.Name, sx("store", d, m.S, sx("store", sx("select", d, m.S), kt, "false")))
		return nil
	case "print", "println":
		return nil
	case "StringData":
		return &Val{T: rt, S: vc.strData(args[0].S)}
	case "min", "max":
		if len(args) == 2 && isInteger(args[0].T) {
			op := "<="
			if b.Name() == "max" {
				op = ">="
			}
			return &Val{T: rt, S: smtIte(sx(op, args[0].S, args[1].S), args[0].S, args[1].S)}
		}
	case "recover":
		vc.unsupported("recover")
		return vc.freshVal(st, rt, "recover")
	case "clear":
		if mt, ok := c.Args[0].Type().Underlying().(*types.Map); ok {
			dom, _, ln := vc.mapKeys(mt)
			_, _, _, ks, _ := mapKeyNames(mt)
			vc.set(st, dom.Name, sx("store", vc.get(st, dom.Name), args[0].S, "((as const (Array "+ks+" Bool)) false)"))
			vc.set(st, ln.Name, sx("store", vc.get(st, ln.Name), args[0].S, "0"))
			return nil
		}
	}
	vc.note("builtin %s havocked", b.Name())
	if rt == nil {
		return nil
	}
	if tt, ok := rt.(*types.Tuple); ok && tt.Len() == 0 {
		return nil
	}
	return vc.freshVal(st, rt, b.Name())
}

// srcElems describes the source of appended/copied elements as a function index -> term.
func (vc *FnVC) srcElems(st *State, v ssa.Value, x *Val) (n string, at func(k string) string, ok bool) {
	if isString(v.Type()) {
		return sx("gs.len", x.S), func(k string) string { return sx("gs.at", x.S, k) }, true
	}
	sl, isSl := v.Type().Underlying().(*types.Slice)
	if !isSl {
		return "", nil, false
	}
	mk := vc.memKey(sl.Elem())
	if mk == nil {
		return "", nil, false
	}
	m := vc.get(st, mk.Name)
	return sx("s.len", x.S), func(k string) string {
		return sx("select", sx("select", m, sx("s.base", x.S)), sx("+", sx("s.off", x.S), k))
	}, true
}

func (vc *FnVC) appendOp(st *State, c *ssa.CallCommon, args []*Val, rt types.Type) *Val {
	s := args[0]
	sl := c.Args[0].Type().Underlying().(*types.Slice)
	elem := sl.Elem()
	mk := vc.memKey(elem)
	var n string
	var at func(string) string
	ok := false
	if len(args) > 1 {
		n, at, ok = vc.srcElems(st, c.Args[1], args[1])
	}
	if isStruct(elem) && len(args) > 1 {
		if r := vc.structAppend(st, s, args[1], elem, rt); r != nil {
			return r
		}
	}
	if mk == nil || !ok {
		// struct elements (or unknown source): sound over-approximation
		res := vc.freshVal(st, rt, "append")
		cnt := "0"
		if len(args) > 1 {
			if isString(c.Args[1].Type()) {
				cnt = sx("gs.len", args[1].S)
			} else {
				cnt = sx("s.len", args[1].S)
			}
		}
		vc.assume(st, smtAnd(sx("=", sx("s.len", res.S), sx("+", sx("s.len", s.S), cnt)), sx(">", sx("s.base", res.S), "0")))
		if isStruct(elem) {
			vc.havocStructHeaps(st, elem)
			vc.note("append of struct elements: field heaps of %s havocked", typeName(elem))
		} else if mk != nil {
			vc.havocKey(st, mk.Name)
		}
		return res
	}
	newLen := vc.define("alen", "Int", sx("+", sx("s.len", s.S), n))
	inPlace := vc.define("inplace", "Bool", sx("<=", newLen, sx("s.cap", s.S)))
	m := vc.get(st, mk.Name)
	es := sortOf(elem)
	// in-place case
	newBase := vc.newRef(st, "app")
	capv := vc.freshName("acap")
	vc.declare(capv, "Int")
	vc.assume(st, smtAnd(sx(">=", capv, newLen), sx("<=", capv, maxLen)))
	resBase := smtIte(inPlace, sx("s.base", s.S), newBase)
	resOff := smtIte(inPlace, sx("s.off", s.S), "0")
	resCap := smtIte(inPlace, sx("s.cap", s.S), capv)
	res := vc.define("app", "Slice", sx("mkslice", resBase, resOff, newLen, resCap))
	arr := vc.freshName("app.arr")
	vc.declare(arr, "(Array Int "+es+")")
	oldArr := sx("select", m, sx("s.base", s.S))
	start := sx("+", sx("s.off", s.S), sx("s.len", s.S))
	// in place: arr[j] = src[j-start] for start<=j<start+n else old[j]
	f1 := fmt.Sprintf("(forall ((j Int)) (! (= (select %s j) (ite (and (<= %s j) (< j (+ %s %s))) %s (select %s j))) :pattern ((select %s j))))",
		arr, start, start, n, at(sx("-", "j", start)), oldArr, arr)
	// fresh: arr[j] = old[off+j] for j<len ; src[j-len] for len<=j<newLen
	f2 := fmt.Sprintf("(forall ((j Int)) (! (=> (and (<= 0 j) (< j %s)) (= (select %s j) (ite (< j (s.len %s)) (select %s (+ (s.off %s) j)) %s))) :pattern ((select %s j))))",
		newLen, arr, s.S, oldArr, s.S, at(sx("-", "j", sx("s.len", s.S))), arr)
	vc.assume(st, smtIte(inPlace, f1, f2))
	vc.set(st, mk.Name, sx("store", m, resBase, arr))
	return &Val{T: rt, S: res}
}

func (vc *FnVC) havocStructHeaps(st *State, t types.Type) {
	u := t.Underlying().(*types.Struct)
	for i := 0; i < u.NumFields(); i++ {
		f := u.Field(i)
		if isStruct(f.Type()) {
			vc.havocStructHeaps(st, f.Type())
			continue
		}
		if k := vc.fieldKey(t, f); k != nil {
			vc.havocKey(st, k.Name)
		}
	}
}

func (vc *FnVC) copyOp(st *State, c *ssa.CallCommon, args []*Val) *Val {
	dst, src := args[0], args[1]
	sl := c.Args[0].Type().Underlying().(*types.Slice)
	mk := vc.memKey(sl.Elem())
	n, at, ok := vc.srcElems(st, c.Args[1], src)
	if mk == nil || !ok {
		if isStruct(sl.Elem()) {
			vc.havocStructHeaps(st, sl.Elem())
		} else if mk != nil {
			vc.havocKey(st, mk.Name)
		}
		r := vc.freshVal(st, tInt, "copied")
		vc.assume(st, smtAnd(sx("<=", "0", r.S), sx("<=", r.S, sx("s.len", dst.S))))
		return r
	}
	cnt := vc.define("ncopy", "Int", smtIte(sx("<=", sx("s.len", dst.S), n), sx("s.len", dst.S), n))
	m := vc.get(st, mk.Name)
	es := sortOf(sl.Elem())
	arr := vc.freshName("copy.arr")
	vc.declare(arr, "(Array Int "+es+")")
	oldArr := sx("select", m, sx("s.base", dst.S))
	start := sx("s.off", dst.S)
	vc.assume(st, fmt.Sprintf("(forall ((j Int)) (! (= (select %s j) (ite (and (<= %s j) (< j (+ %s %s))) %s (select %s j))) :pattern ((select %s j))))",
		arr, start, start, cnt, at(sx("-", "j", start)), oldArr, arr))
	vc.set(st, mk.Name, sx("store", m, sx("s.base", dst.S), arr))
	return &Val{T: tInt, S: cnt}
}

// strData: the data pointer of a string. Go strings are immutable and the pointer keeps the bytes alive, so two
// strings with the same data pointer and the same length have the same contents (trusted; strings made with
// WrapUnsafe over a buffer that is written afterwards would break it).
func (vc *FnVC) strData(s string) string {
	if !vc.declSet["gs.data"] {
		vc.declareFun("gs.data", []string{"Str"}, "Int")
		vc.fact("(forall ((a Str) (b Str)) (! (=> (and (= (gs.data a) (gs.data b)) (= (gs.len a) (gs.len b))) (= a b)) :pattern ((gs.data a) (gs.data b))))")
		vc.fact("(forall ((a Str)) (! (>= (gs.data a) 0) :pattern ((gs.data a))))")
	}
	return sx("gs.data", s)
}

// ---------- library models that cannot be written as contracts ----------

func (vc *FnVC) libModel(st *State, callee *ssa.Function, c *ssa.CallCommon, args []*Val, rt types.Type, instr *ssa.Call) *Val {
	switch callee.String() {
	case "github.com/corazawaf/coraza/v3/internal/strings.WrapUnsafe":
		// the string shares the bytes of buf; buf must not be mutated afterwards. Ownership obligation (C14, class
		// `owned`): the buffer is nil or was allocated during this activation, so no later call can reach it.
		if vc.entry != nil && len(args) == 1 && sortOf(args[0].T) == "Slice" {
			b := sx("s.base", args[0].S)
			goal := smtOr(sx("=", b, "0"), sx(">", sx("ref.root", b), vc.get(vc.entry, "$alloc")))
			vc.oblige(st, "owned", "WrapUnsafe("+vc.srcText(c.Args[0], instr)+")", goal, "the buffer handed to WrapUnsafe was allocated by this call (nobody else can write it later)")
		}
		return vc.bytesToString(st, args[0], rt)
	case "unsafe.String", "unsafe.StringData", "unsafe.SliceData", "unsafe.Slice":
		return nil
	case "fmt.Sprintf":
		return vc.sprintfModel(st, c, rt)
	}
	return nil
}

// sprintfModel: fmt.Sprintf with a constant format made of literal text and %s verbs whose arguments are all
// strings is the concatenation of the pieces. Anything else is left unmodelled (unconstrained result).
func (vc *FnVC) sprintfModel(st *State, c *ssa.CallCommon, rt types.Type) *Val {
	if len(c.Args) != 2 {
		return nil
	}
	fc, ok := c.Args[0].(*ssa.Const)
	if !ok || fc.Value == nil || fc.Value.Kind() != constant.String {
		return nil
	}
	format := constant.StringVal(fc.Value)
	// the variadic arguments: a slice of a local array whose elements are stored just before the call
	var arr *ssa.Alloc
	switch a := c.Args[1].(type) {
	case *ssa.Slice:
		arr, _ = a.X.(*ssa.Alloc)
	case *ssa.Const:
		if a.Value != nil {
			return nil
		}
	}
	elems := map[int64]ssa.Value{}
	if arr != nil {
		for _, ref := range *arr.Referrers() {
			ia, ok := ref.(*ssa.IndexAddr)
			if !ok {
				continue
			}
			ic, ok := ia.Index.(*ssa.Const)
			if !ok {
				return nil
			}
			for _, r2 := range *ia.Referrers() {
				if stv, ok := r2.(*ssa.Store); ok && stv.Addr == ia {
					mi, ok := stv.Val.(*ssa.MakeInterface)
					if !ok || !isString(mi.X.Type()) {
						return nil
					}
					if _, dup := elems[ic.Int64()]; dup {
						return nil
					}
					elems[ic.Int64()] = mi.X
				}
			}
		}
	}
	var pieces []string
	lit := ""
	argi := int64(0)
	for i := 0; i < len(format); i++ {
		if format[i] != '%' {
			lit += string(format[i])
			continue
		}
		if i+1 >= len(format) {
			return nil
		}
		i++
		switch format[i] {
		case '%':
			lit += "%"
		case 's':
			v, ok := elems[argi]
			if !ok {
				return nil
			}
			if lit != "" {
				pieces = append(pieces, vc.strConstTerm(lit))
				lit = ""
			}
			pieces = append(pieces, vc.val(st, v).S)
			argi++
		default:
			return nil
		}
	}
	if int(argi) != len(elems) {
		return nil
	}
	if lit != "" || len(pieces) == 0 {
		pieces = append(pieces, vc.strConstTerm(lit))
	}
	t := pieces[0]
	for _, p := range pieces[1:] {
		vc.usedCat = true
		t = sx("gs.cat", t, p)
	}
	return &Val{T: rt, S: vc.define("sprintf", "Str", t)}
}

func (vc *FnVC) rootPkg() *types.Package {
	if vc.fn.Pkg != nil {
		return vc.fn.Pkg.Pkg
	}
	if vc.fn.Parent() != nil && vc.fn.Parent().Pkg != nil {
		return vc.fn.Parent().Pkg.Pkg
	}
	return nil
}

// leaf describes one scalar field reachable inside a struct element through embedded structs.
type leaf struct {
	key   string                   // heap key
	sort  string                   // element sort
	ref   func(elem string) string // object holding the field, given the element reference
	unref func(r string) string    // inverse: the element reference, given the object holding the field
}

func (vc *FnVC) leafFields(t types.Type, ref func(string) string, unref func(string) string) []leaf {
	u := t.Underlying().(*types.Struct)
	var out []leaf
	for i := 0; i < u.NumFields(); i++ {
		f := u.Field(i)
		if isStruct(f.Type()) {
			fname := f.Name()
			tt := t
			vc.embRef(tt, fname, "0") // declare
			embFn := "emb!" + sanitize(typeName(tt)) + "!" + fname
			out = append(out, vc.leafFields(f.Type(),
				func(e string) string { return sx(embFn, ref(e)) },
				func(r string) string { return unref(sx(embFn+"~inv", r)) })...)
			continue
		}
		k := vc.fieldKey(t, f)
		if k == nil {
			continue
		}
		out = append(out, leaf{key: k.Name, sort: sortOf(f.Type()), ref: ref, unref: unref})
	}
	for name, gf := range vc.G.C.GhostFields[typeName(t)] {
		_ = name
		if k, gt, err := vc.ghostFieldKey(vc.envAt(vc.entry, nil), gf); err == nil {
			out = append(out, leaf{key: k, sort: sortOf(gt), ref: ref, unref: unref})
		}
	}
	return out
}

// structAppend models append(s, src...) exactly for slices whose elements are structs (objects elem(base, i)).
func (vc *FnVC) structAppend(st *State, s, src *Val, elem types.Type, rt types.Type) *Val {
	id := func(x string) string { return x }
	leaves := vc.leafFields(elem, id, id)
	if len(leaves) == 0 || len(leaves) > 80 {
		return nil
	}
	efn := "elem!" + sanitize(typeName(elem))
	vc.elemRef(elem, "0", "0") // declare
	n := sx("s.len", src.S)
	newLen := vc.define("alen", "Int", sx("+", sx("s.len", s.S), n))
	inPlace := vc.define("inplace", "Bool", sx("<=", newLen, sx("s.cap", s.S)))
	newBase := vc.newRef(st, "app")
	capv := vc.freshName("acap")
	vc.declare(capv, "Int")
	vc.assume(st, smtAnd(sx(">=", capv, newLen), sx("<=", capv, maxLen)))
	resBase := vc.define("abase", "Int", smtIte(inPlace, sx("s.base", s.S), newBase))
	resOff := vc.define("aoff", "Int", smtIte(inPlace, sx("s.off", s.S), "0"))
	res := vc.define("app", "Slice", sx("mkslice", resBase, resOff, newLen, smtIte(inPlace, sx("s.cap", s.S), capv)))
	start := vc.define("astart", "Int", sx("+", sx("s.off", s.S), sx("s.len", s.S)))
	for _, lf := range leaves {
		old := vc.get(st, lf.key)
		nf := vc.freshName(shortKey(lf.key) + "~app")
		vc.declare(nf, "(Array Int "+lf.sort+")")
		e := lf.unref("r")    // candidate element reference
		eb := sx(efn+"~b", e) // its base
		ei := sx(efn+"~i", e) // its index
		isEl := sx("=", lf.ref(sx(efn, eb, ei)), "r")
		// in place: elements start..start+n of the old base take the source elements
		tgt1 := smtAnd(isEl, sx("=", eb, sx("s.base", s.S)), sx("<=", start, ei), sx("<", ei, sx("+", start, n)))
		val1 := sx("select", old, lf.ref(sx(efn, sx("s.base", src.S), sx("+", sx("s.off", src.S), sx("-", ei, start)))))
		// reallocated: elements 0..newLen of the new base
		tgt2 := smtAnd(isEl, sx("=", eb, newBase), sx("<=", "0", ei), sx("<", ei, newLen))
		val2 := smtIte(sx("<", ei, sx("s.len", s.S)),
			sx("select", old, lf.ref(sx(efn, sx("s.base", s.S), sx("+", sx("s.off", s.S), ei)))),
			sx("select", old, lf.ref(sx(efn, sx("s.base", src.S), sx("+", sx("s.off", src.S), sx("-", ei, sx("s.len", s.S)))))))
		body := smtIte(smtAnd(inPlace, tgt1), val1, smtIte(smtAnd(smtNot(inPlace), tgt2), val2, sx("select", old, "r")))
		// definitional (nf is a fresh constant): a global fact, so that it is sliced away when nf is irrelevant
		vc.factDef(nf, fmt.Sprintf("(forall ((r Int)) (! (= (select %s r) %s) :pattern ((select %s r))))", nf, body, nf))
		st.m[lf.key] = nf
	}
	return &Val{T: rt, S: res}
}
