package http

import (
	"net/http"
	"net/http/httptest"
	"testing"

	"github.com/corazawaf/coraza/v3"
)

func TestC18NonCanonicalHeaderAfterDeny(t *testing.T) {
	waf, err := coraza.NewWAF(coraza.NewWAFConfig().WithDirectives(`
SecRuleEngine On
SecRule RESPONSE_STATUS "200" "id:1,phase:3,deny,status:403"
`))
	if err != nil {
		t.Fatal(err)
	}
	h := WrapHandler(waf, http.HandlerFunc(func(w http.ResponseWriter, r *http.Request) {
		w.Header()["x-lower-secret"] = []string{"b"}
		w.Header().Set("X-Canonical", "a")
		w.WriteHeader(200)
	}))
	rec := httptest.NewRecorder()
	h.ServeHTTP(rec, httptest.NewRequest("GET", "/", nil))
	if rec.Code != 403 {
		t.Fatalf("status %d, want 403", rec.Code)
	}
	for k := range rec.Result().Header {
		if k != "Content-Length" {
			t.Fatalf("denied response carries the handler's header %q", k)
		}
	}
}
