package main

import (
	"fmt"
	"go/types"
	"sort"
	"strings"
	"sync"

	"golang.org/x/tools/go/ssa"
)

// Houdini-style inference of simple bounds invariants: candidate conjuncts from a fixed template set over
// the loop-header phis and the lengths/ints in scope; candidates that are not inductive are dropped until
// the rest is. Inferred invariants are *checked* like hand-written ones (they appear as inv-entry /
// inv-preserve obligations), so nothing is assumed without proof.

type candidate struct {
	loop int
	c    Clause
}

func candidateClauses(vc *FnVC) map[int][]Clause {
	out := map[int][]Clause{}
	fn := vc.fn
	for h, li := range vc.loops {
		var intPhis []string
		for _, in := range h.Instrs {
			phi, ok := in.(*ssa.Phi)
			if !ok {
				break
			}
			name := phiAlias(phi.Comment)
			if name == "" || !isPlainIdent(name) {
				continue
			}
			if isInteger(phi.Type()) {
				intPhis = append(intPhis, name)
			}
		}
		if len(intPhis) == 0 {
			continue
		}
		// lengths and ints in scope: parameters and locals defined outside the loop
		var seqs, ints []string
		seen := map[string]bool{}
		addName := func(name string, t types.Type) {
			if seen[name] || !isPlainIdent(name) || name == "_" {
				return
			}
			switch {
			case isString(t):
				seqs = append(seqs, name)
			case isInteger(t):
				ints = append(ints, name)
			default:
				if _, ok := t.Underlying().(*types.Slice); ok {
					seqs = append(seqs, name)
				} else {
					return
				}
			}
			seen[name] = true
		}
		for _, p := range fn.Params {
			addName(p.Name(), p.Type())
		}
		for obj, bs := range vc.debugVal {
			v, ok := obj.(*types.Var)
			if !ok || v.IsField() {
				continue
			}
			isPhiHere := false
			for _, n := range intPhis {
				if n == v.Name() {
					isPhiHere = true
				}
			}
			if isPhiHere {
				continue
			}
			okOutside := false
			for _, b := range bs {
				def := b.block
				if vi, isI := b.val.(ssa.Instruction); isI && vi.Block() != nil {
					def = vi.Block()
				}
				if !li.blocks[def] && def.Dominates(h) && !b.addr {
					okOutside = true
				}
				if _, isParam := b.val.(*ssa.Parameter); isParam {
					okOutside = true
				}
			}
			// the variable must not be assigned inside the loop
			for _, b := range bs {
				def := b.block
				if vi, isI := b.val.(ssa.Instruction); isI && vi.Block() != nil {
					def = vi.Block()
				}
				if li.blocks[def] {
					if _, isParam := b.val.(*ssa.Parameter); !isParam {
						if _, isConst := b.val.(*ssa.Const); !isConst || li.blocks[b.block] {
							okOutside = false
						}
					}
				}
			}
			if okOutside {
				addName(v.Name(), v.Type())
			}
		}
		sort.Strings(seqs)
		sort.Strings(ints)
		sort.Strings(intPhis)
		var cs []Clause
		mk := func(text string) {
			e, err := ParseExpr(text)
			if err != nil {
				return
			}
			cs = append(cs, Clause{Text: text, E: e, Name: "auto:" + strings.ReplaceAll(text, " ", "")})
		}
		for _, i := range intPhis {
			mk("0 <= " + i)
			mk("-1 <= " + i)
			for _, s := range seqs {
				mk(i + " <= len(" + s + ")")
				mk(i + " < len(" + s + ")")
			}
			for _, n := range ints {
				mk(i + " <= " + n)
			}
			for _, j := range intPhis {
				if i != j {
					mk(i + " <= " + j)
				}
			}
		}
		if len(cs) > 40 {
			cs = cs[:40]
		}
		out[li.ordinal] = cs
	}
	return out
}

// inferInvariants returns the inductive subset of the candidate bounds invariants for fn.
func (g *Global) inferInvariants(fn *ssa.Function, unit *Unit, workers chan struct{}) map[int][]Clause {
	probe := NewFnVC(g, fn, unit)
	probe.collectDebug()
	if len(fn.Blocks) == 0 {
		return nil
	}
	probe.findLoops()
	if len(probe.loops) == 0 {
		return nil
	}
	cands := candidateClauses(probe)
	total := 0
	for _, c := range cands {
		total += len(c)
	}
	if total == 0 {
		return nil
	}
	for iter := 0; iter < 8; iter++ {
		vc := NewFnVC(g, fn, unit)
		vc.inferOnly = true
		for h, ord := range headersByOrdinal(probe) {
			_ = h
			_ = ord
		}
		vc.houdiniByOrd = cands
		func() {
			defer func() {
				if r := recover(); r != nil {
					vc.outside = append(vc.outside, fmt.Sprint(r))
				}
			}()
			vc.Run()
			vc.finishAxioms()
		}()
		if len(vc.outside) > 0 {
			// contract errors in candidates (unresolvable names): drop those candidates
			dropped := false
			for _, msg := range vc.outside {
				for ord, cs := range cands {
					var keep []Clause
					for _, c := range cs {
						if strings.Contains(msg, fmt.Sprintf("%q", c.Text)) {
							dropped = true
							continue
						}
						keep = append(keep, c)
					}
					cands[ord] = keep
				}
			}
			if dropped {
				continue
			}
		}
		// solve only the auto obligations
		failed := map[string]bool{}
		var mu sync.Mutex
		var wg sync.WaitGroup
		for _, o := range vc.obls {
			if (o.Class != "inv-entry" && o.Class != "inv-preserve") || !strings.Contains(o.Name, "/auto:") {
				continue
			}
			wg.Add(1)
			go func(o *Obligation) {
				defer wg.Done()
				workers <- struct{}{}
				defer func() { <-workers }()
				r := solve(o.script(), 3, []string{"z3-new", "cvc5"})
				if r.Status != "unsat" {
					// name: .../loopN/auto:text#k
					n := o.Name
					i := strings.Index(n, "/auto:")
					lbl := n[i+1:]
					if j := strings.LastIndex(lbl, "#"); j >= 0 {
						lbl = lbl[:j]
					}
					var ord int
					pre := n[:i]
					fmt.Sscanf(pre[strings.LastIndex(pre, "/loop")+5:], "%d", &ord)
					mu.Lock()
					failed[fmt.Sprintf("%d|%s", ord, lbl)] = true
					mu.Unlock()
				}
			}(o)
		}
		wg.Wait()
		if len(failed) == 0 {
			return cands
		}
		for ord, cs := range cands {
			var keep []Clause
			for _, c := range cs {
				if failed[fmt.Sprintf("%d|%s", ord, c.Name)] {
					continue
				}
				keep = append(keep, c)
			}
			cands[ord] = keep
		}
	}
	return nil
}

func headersByOrdinal(vc *FnVC) map[*ssa.BasicBlock]int { return vc.loopOrd }
