package corazawaf

import (
	"testing"

	"github.com/corazawaf/coraza/v3/internal/corazarules"
	"github.com/corazawaf/coraza/v3/types"
)

// C19: "carries exactly the fired rules that are audit-enabled". A parts value with a repeated K is accepted by
// types.ParseAuditLogParts and lists every message twice.
func TestC19DuplicateK(t *testing.T) {
	parts, err := types.ParseAuditLogParts("AKKZ")
	if err != nil {
		t.Skip("duplicate part rejected: ", err)
	}
	tx := makeTransaction(t)
	tx.AuditLogParts = parts
	r := NewRule()
	r.ID_ = 7
	r.Audit = true
	r.Log = true
	tx.MatchRule(r, []types.MatchData{&corazarules.MatchData{Message_: "m", Data_: "d"}})
	al := tx.AuditLog()
	if n := len(al.Messages()); n != 1 {
		t.Errorf("one audit-enabled match with one datum, parts %q: %d messages in the record", "AKKZ", n)
	}
}
