package corazawaf

import "testing"

func TestXBasenameTrailingSlash(t *testing.T) {
	waf := NewWAF()
	tx := waf.NewTransaction()
	defer tx.Close()
	tx.ProcessURI("/a/b/?x=1", "GET", "HTTP/1.1")
	fn := tx.variables.requestFilename.Get()
	bn := tx.variables.requestBasename.Get()
	t.Logf("REQUEST_FILENAME=%q REQUEST_BASENAME=%q", fn, bn)
	if bn != "" {
		t.Fatalf("REQUEST_BASENAME of %q is %q, want the (empty) part after the last slash", fn, bn)
	}
}

func TestXUnparsableURIFlag(t *testing.T) {
	waf := NewWAF()
	tx := waf.NewTransaction()
	defer tx.Close()
	tx.ProcessURI("/%zz?a=1", "GET", "HTTP/1.1")
	t.Logf("URLENCODED_ERROR=%q ARGS_GET=%v QUERY_STRING=%q", tx.variables.urlencodedError.Get(), tx.variables.argsGet.Get("a"), tx.variables.queryString.Get())
	if len(tx.variables.argsGet.Get("a")) == 0 && tx.variables.urlencodedError.Get() != "1" {
		t.Fatalf("argument a dropped and URLENCODED_ERROR is %q, not \"1\"", tx.variables.urlencodedError.Get())
	}
}
