package probe

import (
	"fmt"
	"testing"

	"github.com/corazawaf/coraza/v3"
	"github.com/corazawaf/coraza/v3/types"
)

func newTx(t *testing.T, directives string) types.Transaction {
	waf, err := coraza.NewWAF(coraza.NewWAFConfig().WithDirectives(directives))
	if err != nil {
		t.Fatal(err)
	}
	return waf.NewTransaction()
}

// Cookie part with an empty name: dropped, no error variable, no interruption.
func TestCookieEmptyNameDropped(t *testing.T) {
	tx := newTx(t, `
SecRuleEngine On
SecRule REQUEST_COOKIES|REQUEST_COOKIES_NAMES "@contains secret" "id:1,phase:1,deny,status:403"
SecRule REQBODY_ERROR|INBOUND_DATA_ERROR|MULTIPART_STRICT_ERROR|URLENCODED_ERROR "!@eq 0" "id:2,phase:1,deny,status:400"
`)
	tx.AddRequestHeader("Cookie", "=secret; a=b")
	it := tx.ProcessRequestHeaders()
	fmt.Printf("cookie '=secret; a=b': interruption=%v\n", it)
	if it == nil {
		t.Errorf("cookie part \"=secret\" vanished: REQUEST_COOKIES does not contain it and no error variable / interruption was raised")
	}
}
