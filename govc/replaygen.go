package main

func tryReplay(g *Global, o *Obligation, path string) bool { return false }
