package probe12

import (
	"testing"

	"github.com/corazawaf/coraza/v3"
)

// Two chains each test MATCHED_VAR with t:lowercase. The second chain's MATCHED_VAR is "BAR" (lowercase "bar"),
// so its second link (@streq foo) must not match; with a stale transformation cache it sees the first chain's "foo".
func TestMatchedVarTransformationCacheIsNotStale(t *testing.T) {
	waf, err := coraza.NewWAF(coraza.NewWAFConfig().WithDirectives(`
SecRuleEngine On
SecRule ARGS:a "@streq FOO" "id:1,phase:1,pass,nolog,chain"
  SecRule MATCHED_VAR "@streq foo" "t:lowercase,setvar:tx.first=1"
SecRule ARGS:b "@streq BAR" "id:2,phase:1,pass,nolog,chain"
  SecRule MATCHED_VAR "@streq foo" "t:lowercase,setvar:tx.second=1"
SecRule TX:second "@eq 1" "id:3,phase:1,deny,status:403"
`))
	if err != nil {
		t.Fatal(err)
	}
	tx := waf.NewTransaction()
	defer tx.Close()
	tx.ProcessURI("/?a=FOO&b=BAR", "GET", "HTTP/1.1")
	if it := tx.ProcessRequestHeaders(); it != nil {
		t.Fatalf("phantom match: the second chain matched MATCHED_VAR=BAR against foo (rule %d)", it.RuleID)
	}
}
