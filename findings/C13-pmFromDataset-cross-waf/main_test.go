package probe13

import (
	"testing"

	"github.com/corazawaf/coraza/v3"
)

func match(t *testing.T, waf coraza.WAF, arg string) bool {
	tx := waf.NewTransaction()
	defer tx.Close()
	tx.ProcessURI("/?x="+arg, "GET", "HTTP/1.1")
	it := tx.ProcessRequestHeaders()
	return it != nil
}

func TestDatasetCacheLeak(t *testing.T) {
	w1, err := coraza.NewWAF(coraza.NewWAFConfig().WithDirectives(`
SecRuleEngine On
SecDataset bad ` + "`" + `
alpha
` + "`" + `
SecRule ARGS "@pmFromDataset bad" "id:1,phase:1,deny,status:403"
`))
	if err != nil { t.Fatal(err) }
	w2, err := coraza.NewWAF(coraza.NewWAFConfig().WithDirectives(`
SecRuleEngine On
SecDataset bad ` + "`" + `
omega
` + "`" + `
SecRule ARGS "@pmFromDataset bad" "id:1,phase:1,deny,status:403"
`))
	if err != nil { t.Fatal(err) }
	if !match(t, w1, "alpha") { t.Fatal("w1 should match alpha") }
	if !match(t, w2, "omega") { t.Errorf("w2 follows ANOTHER WAF's dataset: omega (its own list) does not match") }
	if match(t, w2, "alpha") { t.Errorf("w2 follows ANOTHER WAF's dataset: alpha (w1's list) matches") }
}
