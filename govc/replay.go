package main

import (
	"fmt"
	"os"
	"regexp"
	"sort"
	"strings"
)

var modelDefRe = regexp.MustCompile(`\(define-fun\s+(\S+)\s+\(\)\s+(\S+)\s+([^\n]*(?:\n\s+[^\n(]*)?)\)`)

// modelInputs extracts the values of the function's parameters from a solver model (best effort).
func modelInputs(o *Obligation) string {
	out := o.Result.Output
	var lines []string
	for _, m := range modelDefRe.FindAllStringSubmatch(out, -1) {
		name := m[1]
		if strings.HasPrefix(name, "p.") || strings.HasPrefix(name, "|p.") {
			lines = append(lines, fmt.Sprintf("%s = %s", name, strings.TrimSpace(m[3])))
		}
	}
	sort.Strings(lines)
	if len(lines) > 40 {
		lines = lines[:40]
	}
	return strings.Join(lines, "\n")
}

// replayConfirms tries to reproduce a failed obligation on the real code. (Generic replay is implemented
// for functions over scalars, strings and byte slices; see replaygen.go.)
func replayConfirms(g *Global, o *Obligation, path string) bool {
	return tryReplay(g, o, path)
}

func cmdReplay(args []string) int {
	if len(args) < 1 {
		fmt.Fprintln(os.Stderr, "usage: govc replay <path>")
		return 2
	}
	b, err := os.ReadFile(args[0])
	if err != nil {
		fmt.Fprintln(os.Stderr, err)
		return 2
	}
	os.Stdout.Write(b)
	return 0
}
