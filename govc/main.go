package main

import (
	"encoding/json"
	"flag"
	"fmt"
	"go/types"
	"os"
	"path/filepath"
	"runtime"
	"sort"
	"strings"
	"sync"
	"time"

	"golang.org/x/tools/go/ssa"
)

var verifDir = "/verif"
var repoDir = "/repo"

func main() {
	if len(os.Args) < 2 {
		fmt.Fprintln(os.Stderr, "usage: govc check|unit|replay|list ...")
		os.Exit(2)
	}
	if d := os.Getenv("GOVC_VERIF"); d != "" {
		verifDir = d
	}
	if d := os.Getenv("GOVC_REPO"); d != "" {
		repoDir = d
	}
	code := 0
	switch os.Args[1] {
	case "check":
		code = cmdCheck(os.Args[2:])
	case "unit":
		code = cmdUnit(os.Args[2:])
	case "replay":
		code = cmdReplay(os.Args[2:])
	case "list":
		code = cmdList(os.Args[2:])
	case "writes":
		code = cmdWrites(os.Args[2:])
	case "memo":
		code = cmdMemo(os.Args[2:])
	default:
		fmt.Fprintln(os.Stderr, "unknown command")
		code = 2
	}
	cleanupScratch()
	os.Exit(code)
}

func loadAll() (*Global, error) {
	g, err := loadProgram(repoDir, []string{"./..."})
	if err != nil {
		return nil, err
	}
	if err := g.loadContracts(filepath.Join(verifDir, "specs")); err != nil {
		return nil, err
	}
	return g, nil
}

// buildScript assembles the SMT query for one obligation.
func (o *Obligation) script() string {
	if o.Raw != "" {
		return o.Raw
	}
	vc := o.vc
	var sb strings.Builder
	sb.WriteString(preamble)
	if vc.usedSub {
		sb.WriteString(subAxioms)
	}
	if vc.usedCat {
		sb.WriteString(catAxioms)
	}
	if vc.usedOfArr {
		sb.WriteString(ofarrAxioms)
	}
	if vc.usedExtQ {
		sb.WriteString("(assert (forall ((a Str) (b Str)) (! (or (= a b) (not (= (gs.len a) (gs.len b))) (and (<= 0 (gs.diff a b)) (< (gs.diff a b) (gs.len a)) (not (= (gs.at a (gs.diff a b)) (gs.at b (gs.diff a b)))))) :pattern ((gs.diff a b)))))\n")
	}
	// cone of influence: only definitions, declarations and facts connected to the goal and path condition
	need := map[string]bool{}
	var work []string
	addSyms := func(t string) {
		for _, sym := range symbolsOf(t) {
			if !need[sym] {
				need[sym] = true
				work = append(work, sym)
			}
		}
	}
	addSyms(o.PC)
	addSyms(o.Goal)
	defs := vc.defs[:o.DefsEnd]
	vc.indexDefs()
	for len(work) > 0 {
		sym := work[len(work)-1]
		work = work[:len(work)-1]
		if i, ok := vc.defIndex[sym]; ok && i < o.DefsEnd {
			addSyms(defs[i])
		}
	}
	// facts: keep those that mention a needed symbol (iterate to a fixed point, facts may pull in more symbols)
	keepFact := map[int]bool{}
	for changed := true; changed; {
		changed = false
		for i, d := range defs {
			if keepFact[i] || !strings.HasPrefix(d, "(assert") {
				continue
			}
			if n, isDef := vc.factDefs[i]; isDef {
				if need[n] {
					keepFact[i] = true // its symbols were added when n was reached through defIndex
				}
				continue
			}
			syms := symbolsOf(d)
			hit := false
			for _, sym := range syms {
				if need[sym] && !builtinSym[sym] {
					hit = true
					break
				}
			}
			if hit {
				keepFact[i] = true
				changed = true
				before := len(need)
				addSyms(d)
				for len(work) > 0 {
					sym := work[len(work)-1]
					work = work[:len(work)-1]
					if j, ok := vc.defIndex[sym]; ok && j < o.DefsEnd {
						addSyms(defs[j])
					}
				}
				_ = before
			}
		}
	}
	for _, d := range vc.axiomDefs {
		addSyms(d)
	}
	for _, d := range vc.decls {
		n := declName(d)
		if n == "" || need[n] {
			sb.WriteString(d)
			sb.WriteByte('\n')
		}
	}
	for _, d := range vc.axiomDefs {
		sb.WriteString(d)
		sb.WriteByte('\n')
	}
	for i, d := range defs {
		if strings.HasPrefix(d, "(define-fun ") {
			if !need[declName(d)] {
				continue
			}
		} else if strings.HasPrefix(d, "(assert") && !keepFact[i] {
			continue
		}
		sb.WriteString(d)
		sb.WriteByte('\n')
	}
	sb.WriteString("(assert " + o.PC + ")\n")
	if !o.Cover {
		sb.WriteString("(assert (not " + o.Goal + "))\n")
	}
	body := sb.String()
	if strings.Contains(body, "ref.root") {
		// the allocation-root function is only declared (with its axiom) when the query mentions it
		i := strings.Index(body, preamble) + len(preamble)
		body = body[:i] + rootAxioms + body[i:]
	}
	return body
}

var builtinSym = map[string]bool{"and": true, "or": true, "not": true, "ite": true, "select": true, "store": true, "forall": true, "exists": true,
	"true": true, "false": true, "Int": true, "Bool": true, "Str": true, "Array": true, "assert": true, "mod": true, "div": true,
	"gs.len": true, "gs.at": true, "gs.empty": true, "gs.diff": true, "gs.cat": true, "gs.sub": true, "gs.unit": true, "gs.ofarr": true,
	"ref.root": true, "s.base": true, "s.off": true, "s.len": true, "s.cap": true, "mkslice": true, "i.tag": true, "i.pay": true, "mkiface": true, "as": true, "const": true,
	"Slice": true, "Iface": true, "define-fun": true, "declare-const": true, "declare-fun": true, "pattern": true, "Real": true, "to_real": true, "xor": true}

func isSymChar(c byte) bool {
	return c >= 'a' && c <= 'z' || c >= 'A' && c <= 'Z' || c >= '0' && c <= '9' || c == '_' || c == '.' || c == '$' || c == '!' || c == '@' || c == '~' || c == '-' && false
}

// symbolsOf lists the identifier-like tokens of an SMT term.
func symbolsOf(t string) []string {
	var out []string
	i := 0
	for i < len(t) {
		if isSymChar(t[i]) {
			j := i
			for j < len(t) && isSymChar(t[j]) {
				j++
			}
			tok := t[i:j]
			if !(tok[0] >= '0' && tok[0] <= '9') {
				out = append(out, tok)
			}
			i = j
		} else {
			i++
		}
	}
	return out
}

func declName(d string) string {
	for _, p := range []string{"(declare-const ", "(declare-fun ", "(define-fun "} {
		if strings.HasPrefix(d, p) {
			r := d[len(p):]
			if i := strings.IndexAny(r, " )"); i >= 0 {
				return r[:i]
			}
		}
	}
	return ""
}

func (vc *FnVC) indexDefs() {
	vc.idxMu.Lock()
	defer vc.idxMu.Unlock()
	if vc.defIndex != nil && vc.defIndexed == len(vc.defs) {
		return
	}
	vc.defIndex = map[string]int{}
	for i, d := range vc.defs {
		if strings.HasPrefix(d, "(define-fun ") {
			vc.defIndex[declName(d)] = i
		}
	}
	for i, n := range vc.factDefs {
		vc.defIndex[n] = i
	}
	vc.defIndexed = len(vc.defs)
}

type unitResult struct {
	Unit    *Unit
	Fn      *ssa.Function
	VC      *FnVC
	Missing bool
	Obls    []*Obligation
	Seconds float64
	Inv     map[int][]string
}

type runOpts struct {
	storedInv map[int][]string // sweep: invariants inferred on the unchanged tree
	only      map[string]bool  // if non-nil: solve only these obligation names (others are left unattempted)
	skip      map[string]bool  // obligation names not to attempt (recorded as not claimed in the baseline)
	solvers   []string         // first-pass solvers (nil = all)
	safety    bool             // keep only the safety-class obligations of the unit (C07 view of a unit that belongs to another property)
}

func (g *Global) runUnit(u *Unit, timeout int, workers chan struct{}) *unitResult {
	return g.runUnitOpts(u, timeout, workers, runOpts{})
}

func clausesFromTexts(m map[int][]string) map[int][]Clause {
	out := map[int][]Clause{}
	for ord, ts := range m {
		for _, t := range ts {
			if e, err := ParseExpr(t); err == nil {
				out[ord] = append(out[ord], Clause{Text: t, E: e, Name: "auto:" + strings.ReplaceAll(t, " ", "")})
			}
		}
	}
	return out
}

func (g *Global) runUnitOpts(u *Unit, timeout int, workers chan struct{}, ro runOpts) *unitResult {
	key := unitKey(u.Pkg, u.Func)
	fn := g.fnByKey[key]
	if u.FnKey != "" {
		fn = g.fnByKey[u.FnKey]
	}
	res := &unitResult{Unit: u, Fn: fn}
	if fn == nil {
		res.Missing = true
		return res
	}
	start := time.Now()
	vc := NewFnVC(g, fn, u)
	usedStored := false
	if ro.storedInv != nil {
		vc.houdiniByOrd = clausesFromTexts(ro.storedInv)
		usedStored = true
	} else if u.Opts["sweep"] || u.Opts["infer"] {
		vc.houdiniByOrd = g.inferInvariants(fn, u, workers)
	}
	func() {
		defer func() {
			if r := recover(); r != nil {
				vc.outside = append(vc.outside, fmt.Sprintf("generator panic: %v", r))
				if os.Getenv("GOVC_DEBUG") != "" {
					panic(r)
				}
			}
		}()
		vc.Run()
		vc.finishAxioms()
	}()
	res.VC = vc
	vc.obls = append(vc.obls, g.footprintObligations(vc, u, fn)...)
	if ro.safety {
		var keep []*Obligation
		for _, o := range vc.obls {
			switch o.Class {
			case "index", "slice", "nil", "nil-map", "assert-type", "div", "neg-make", "panic-call", "arith", "cover":
				keep = append(keep, o)
			}
		}
		vc.obls = keep
	}
	res.Obls = vc.obls
	var wg sync.WaitGroup
	for _, o := range vc.obls {
		if o.Static {
			continue
		}
		if (ro.only != nil && !ro.only[o.Name]) || (ro.skip != nil && ro.skip[o.Name] && !o.Cover) {
			o.Status = "unattempted"
			continue
		}
		wg.Add(1)
		go func(o *Obligation) {
			defer wg.Done()
			workers <- struct{}{}
			defer func() { <-workers }()
			tmo := timeout
			if o.Cover && tmo > 3 {
				tmo = 3
			}
			o.Result = solve(o.script(), tmo, ro.solvers)
			switch {
			case o.Cover:
				switch o.Result.Status {
				case "sat":
					o.Status = "discharged"
				case "unsat":
					o.Status = "failed"
				default:
					o.Status = "undecided"
				}
			case o.Result.Status == "unsat":
				o.Status = "discharged"
			case o.Result.Status == "sat":
				o.Status = "failed"
			default:
				o.Status = "undecided"
				if os.Getenv("GOVC_CANDIDATE") != "" {
					// look for a candidate counterexample with the quantified facts dropped (may be spurious)
					r2 := solve(stripQuantified(o.script()), 5, nil)
					if r2.Status == "sat" {
						o.Candidate = r2.Output
					}
				}
			}
		}(o)
	}
	wg.Wait()
	if usedStored {
		// a stored invariant that is no longer inductive, or any other failure: re-infer from scratch before judging
		redo := len(vc.outside) > 0
		for _, o := range vc.obls {
			if o.Status != "discharged" && o.Status != "unattempted" && !o.Cover {
				redo = true
			}
		}
		if redo {
			ro.storedInv = nil
			return g.runUnitOpts(u, timeout, workers, ro)
		}
	}
	res.Inv = map[int][]string{}
	for ord, cs := range vc.houdiniByOrd {
		for _, c := range cs {
			res.Inv[ord] = append(res.Inv[ord], c.Text)
		}
	}
	res.Seconds = time.Since(start).Seconds()
	return res
}

// solveRaw discharges obligations that come with their own script.
func solveRaw(obls []*Obligation, timeout int, workers chan struct{}) {
	var wg sync.WaitGroup
	for _, o := range obls {
		wg.Add(1)
		go func(o *Obligation) {
			defer wg.Done()
			workers <- struct{}{}
			defer func() { <-workers }()
			o.Result = solve(o.Raw, timeout, []string{"z3-new", "cvc5"})
			switch o.Result.Status {
			case "unsat":
				o.Status = "discharged"
			case "sat":
				o.Status = "failed"
			default:
				o.Status = "undecided"
			}
			if o.Class == "memo-class" {
				o.Status = "failed"
				o.Result.Status = "sat"
				o.Result.Output = "the function calls the build cache but declares no value class"
			}
		}(o)
	}
	wg.Wait()
}

// finishAxioms evaluates the user axioms that mention spec functions used by this function.
func (vc *FnVC) finishAxioms() {
	// interface-to-interface assertions: which dynamic types implement the asserted interface
	for _, p := range sortedKeys(vc.implPreds) {
		pos, neg := vc.G.tagsImplementingSplit(vc.implPreds[p])
		for _, tg := range pos {
			vc.axiomDefs = append(vc.axiomDefs, "(assert "+sx(p, fmt.Sprint(tg))+")")
		}
		for _, tg := range neg {
			vc.axiomDefs = append(vc.axiomDefs, "(assert (not "+sx(p, fmt.Sprint(tg))+"))")
		}
	}
	done := map[*Axiom]bool{}
	for iter := 0; iter < 5; iter++ {
		changed := false
		for _, ax := range vc.G.C.Axioms {
			if done[ax] {
				continue
			}
			use := false
			for name := range vc.usedSpecs {
				if containsIdent(ax.Text, name) {
					use = true
					break
				}
			}
			if !use {
				continue
			}
			done[ax] = true
			changed = true
			saved := vc.defs
			vc.defs = nil
			env := vc.envAt(vc.entry, nil)
			env.noProgram = true
			if p := vc.G.pkgByPath(ax.Pkg); p != nil {
				env.pkg = p
			}
			t, err := vc.evalBool(env, ax.E)
			extra := vc.defs
			vc.defs = saved
			if err != nil {
				vc.contractError("axiom %s: %v", ax.Name, err)
				continue
			}
			vc.axiomDefs = append(vc.axiomDefs, extra...)
			vc.axiomDefs = append(vc.axiomDefs, "(assert "+t+")")
		}
		if !changed {
			break
		}
	}
}

// stripQuantified drops every quantified fact: top-level quantified assertions are removed and quantified
// sub-terms inside definitions are replaced by true. Used only to look for candidate counterexamples
// (which are then replayed on the real code), never to discharge an obligation.
func stripQuantified(script string) string {
	var out []string
	for _, l := range strings.Split(script, "\n") {
		if strings.HasPrefix(l, "(assert (forall") || strings.HasPrefix(l, "(assert (exists") || strings.HasPrefix(l, "(assert (! (forall") {
			continue
		}
		for _, q := range []string{"(forall ", "(exists "} {
			for {
				i := strings.Index(l, q)
				if i < 0 {
					break
				}
				depth, j := 0, i
				for ; j < len(l); j++ {
					if l[j] == '(' {
						depth++
					} else if l[j] == ')' {
						depth--
						if depth == 0 {
							break
						}
					}
				}
				if j >= len(l) {
					break
				}
				l = l[:i] + "true" + l[j+1:]
			}
		}
		out = append(out, l)
	}
	return strings.Join(out, "\n")
}

func containsIdent(text, name string) bool {
	i := 0
	for {
		j := strings.Index(text[i:], name)
		if j < 0 {
			return false
		}
		j += i
		before := j == 0 || !isIdentChar(text[j-1])
		after := j+len(name) >= len(text) || !isIdentChar(text[j+len(name)])
		if before && after {
			return true
		}
		i = j + 1
	}
}

// ---------- check command ----------

type knownFinding struct {
	Property   string `json:"property"`
	Obligation string `json:"obligation"`
	What       string `json:"what"`
	Status     string `json:"status"` // known | fixed
	Commit     string `json:"commit,omitempty"`
}

type baseline struct {
	Unproved     []string                    `json:"unproved"`
	Floor        int                         `json:"floor"`                   // minimal number of discharged obligations expected
	SweepClaimed []string                    `json:"sweep_claimed,omitempty"` // C07 sweep: safety obligations discharged on the unchanged tree
	SweepInv     map[string]map[int][]string `json:"sweep_inv,omitempty"`     // C07 sweep: bounds invariants inferred per function and loop
}

var oblClasses = []string{"/cover/", "/pre/", "/post/", "/inv-entry/", "/inv-preserve/", "/modifies/", "/arith/", "/index/", "/slice/", "/nil/",
	"/assert-type/", "/nil-map/", "/div/", "/neg-make/", "/panic-call/", "/decreases/", "/unit/"}

// oblFn extracts the function key from an obligation name.
func oblFn(name string) string {
	best := len(name)
	for _, c := range oblClasses {
		if i := strings.Index(name, c); i >= 0 && i < best {
			best = i
		}
	}
	return name[:best]
}

// sweepUnits: synthetic contract-free units for every in-repo function on the request/config path.
func (g *Global) sweepUnits() []*Unit {
	var us []*Unit
	for key, fn := range g.fnByKey {
		if fn.Pkg == nil || !g.inRepo(fn.Pkg.Pkg) || len(fn.Blocks) == 0 {
			continue
		}
		p := fn.Pkg.Pkg.Path()
		skip := false
		for _, x := range []string{"/testing", "/examples", "/e2e", "/magefile", "/internal/auditlog/ocsf"} {
			if strings.Contains(p, x) {
				skip = true
			}
		}
		if skip || fn.Name() == "init" || fn.Synthetic != "" {
			continue
		}
		if _, has := g.C.Units[key]; has {
			continue
		}
		pos := g.fset.Position(fn.Pos())
		if strings.HasSuffix(pos.Filename, "_test.go") {
			continue
		}
		i := strings.Index(key, "::")
		us = append(us, &Unit{Pkg: key[:i], Func: key[i+2:], Props: []string{"C07"}, Loops: map[int]*LoopSpec{}, Opts: map[string]bool{"sweep": true}})
	}
	sort.Slice(us, func(i, j int) bool { return unitKey(us[i].Pkg, us[i].Func) < unitKey(us[j].Pkg, us[j].Func) })
	return us
}

func unprovedOKPre(bl baseline, name string) bool {
	for _, n := range bl.Unproved {
		if n == name {
			return true
		}
	}
	return false
}

func readJSON(path string, v any) error {
	b, err := os.ReadFile(path)
	if err != nil {
		return err
	}
	return json.Unmarshal(b, v)
}

// machineOverloaded: the 1-minute load average exceeds the number of CPUs (Linux; false when it cannot be read).
func machineOverloaded() bool {
	b, err := os.ReadFile("/proc/loadavg")
	if err != nil {
		return false
	}
	var l1 float64
	if _, err := fmt.Sscan(string(b), &l1); err != nil {
		return false
	}
	return l1 > float64(runtime.NumCPU())
}

func cmdCheck(args []string) int {
	fs := flag.NewFlagSet("check", flag.ExitOnError)
	prop := fs.String("property", "", "property id")
	tier := fs.String("tier", "quick", "quick|thorough")
	verbose := fs.Bool("v", false, "verbose")
	updateBaseline := fs.Bool("update-baseline", false, "rewrite the unproved baseline from this run (maintainer use)")
	fs.Parse(args)
	if t := os.Getenv("VERIF_TIER"); t != "" && *tier == "" {
		*tier = t
	}
	start := time.Now()
	seed := 0
	fmt.Sscan(os.Getenv("VERIF_SEED"), &seed)
	g, err := loadAll()
	if err != nil {
		fmt.Fprintln(os.Stderr, "load failed:", err)
		// a tree that does not load cannot be verified
		writeReplay(*prop, "load-failure", "the repository failed to load: "+err.Error())
		fmt.Printf("VIOLATION property=%s replay=%s no-failing-input-found\n", *prop, replayPath(*prop, "load-failure"))
		return 1
	}
	units := g.C.unitsForProp(*prop)
	if *prop == "C13" && len(units) == 0 {
		units = append(units, &Unit{Pkg: "", Func: "build-cache-keys", Props: []string{"C13"}, Opts: map[string]bool{"virtual": true}, Loops: map[int]*LoopSpec{}})
	}
	sweepClaim := map[string]bool{}
	if *prop == "C07" {
		units = append(units, g.sweepUnits()...)
	}
	if len(units) == 0 {
		fmt.Fprintf(os.Stderr, "no contract units for property %s\n", *prop)
		return 2
	}
	timeout := 10
	if *tier == "thorough" {
		timeout = 60
	}
	var bl baseline
	readJSON(filepath.Join(verifDir, "baseline", *prop+".json"), &bl)
	for _, n := range bl.SweepClaimed {
		sweepClaim[n] = true
	}
	claimedByFn := map[string]int{}
	for n := range sweepClaim {
		if i := strings.Index(n, "/"); i >= 0 {
			// function key ends before the first "/<class>/" segment: find it by matching known classes
		}
		claimedByFn[oblFn(n)]++
	}
	quickSkip := map[string]bool{}
	{
		var kfs0 []knownFinding
		readJSON(filepath.Join(verifDir, "known_findings.json"), &kfs0)
		isKnown := map[string]bool{}
		for _, k := range kfs0 {
			if k.Property == *prop && k.Status == "known" {
				isKnown[k.Obligation] = true
			}
		}
		for _, n := range bl.Unproved {
			if !isKnown[n] {
				quickSkip[n] = true
			}
		}
	}
	workers := make(chan struct{}, 10)
	results := make([]*unitResult, len(units))
	var wg sync.WaitGroup
	gen := make(chan struct{}, 6)
	skipped := 0
	for i, u := range units {
		if u.Opts["sweep"] && *tier == "quick" && !*updateBaseline {
			if claimedByFn[unitKey(u.Pkg, u.Func)] == 0 {
				skipped++
				continue
			}
		}
		wg.Add(1)
		go func(i int, u *Unit) {
			defer wg.Done()
			gen <- struct{}{}
			defer func() { <-gen }()
			ro := runOpts{}
			tmo := timeout
			if u.Opts["sweep"] {
				if tmo > 5 && *tier == "quick" {
					tmo = 5
				}
				if !*updateBaseline {
					if inv, ok := bl.SweepInv[unitKey(u.Pkg, u.Func)]; ok {
						ro.storedInv = inv
					}
					if *tier == "quick" {
						ro.only = sweepClaim
					}
				}
			}
			if !u.Opts["sweep"] && *tier == "quick" && !*updateBaseline {
				// quick tier: obligations the committed baseline lists as not claimed are not attempted (they mostly
				// burn the whole time limit); known findings are attempted so that they are reported
				ro.skip = quickSkip
			}
			if *prop == "C07" && !u.Opts["sweep"] && len(u.Props) > 0 && u.Props[0] != "C07" {
				// the unit's functional obligations are checked under its own property; C07 is about its panics
				ro.safety = true
			}
			if *tier == "quick" && !*updateBaseline {
				// first pass with the two fast back ends; whatever they leave undecided gets all three in the retry pass
				ro.solvers = []string{"cvc5", "z3-new"}
			}
			results[i] = g.runUnitOpts(u, tmo, workers, ro)
		}(i, u)
	}
	wg.Wait()
	{
		var rs []*unitResult
		for _, r := range results {
			if r != nil {
				rs = append(rs, r)
			}
		}
		results = rs
	}
	{
		// build-cache key obligations: all of them for C13; for any other property those of the cache sites inside
		// functions whose contract unit carries that property (e.g. the rule's regex selectors for C01)
		var mo []*Obligation
		for _, o := range g.memoObligations() {
			if *prop == "C13" {
				mo = append(mo, o)
				continue
			}
			if o.Class != "memo-keyval" {
				continue
			}
			fk := o.Name[:strings.Index(o.Name, "#")]
			if u := g.C.Units[fk]; u != nil {
				for _, pp := range u.Props {
					if pp == *prop {
						mo = append(mo, o)
					}
				}
			}
		}
		if len(mo) > 0 {
			solveRaw(mo, timeout, workers)
			results = append(results, &unitResult{Unit: &Unit{Pkg: "", Func: "build-cache-keys", Props: []string{*prop}, Opts: map[string]bool{}}, VC: &FnVC{}, Obls: mo})
		}
	}
	sweepInv := map[string]map[int][]string{}
	var sweepDischarged []string
	var sweepFailed []string // unclaimed sweep obligations with a counterexample: candidates for triage (written to out/)
	sweepNew := 0
	unprovedOK := map[string]bool{}
	for _, n := range bl.Unproved {
		unprovedOK[n] = true
	}
	var kfs []knownFinding
	readJSON(filepath.Join(verifDir, "known_findings.json"), &kfs)
	known := map[string]knownFinding{}
	for _, k := range kfs {
		if k.Property == *prop && k.Status == "known" {
			known[k.Obligation] = k
		}
	}

	// second chance for obligations the solvers gave up on (not refuted): run them again, one at a time, with a
	// longer time limit, so that machine load cannot turn a slow proof into an alarm
	if !*updateBaseline {
		var again []*Obligation
		for _, r := range results {
			for _, o := range r.Obls {
				if o.Cover || o.Status != "undecided" || unprovedOKPre(bl, o.Name) {
					continue
				}
				if _, isKnown := known[o.Name]; isKnown {
					continue
				}
				if r.Unit.Opts["sweep"] && !sweepClaim[o.Name] {
					continue
				}
				again = append(again, o)
			}
		}
		// many undecided claimed obligations at once mean a real change, not load: retry a bounded number of them
		sort.Slice(again, func(i, j int) bool { return again[i].Name < again[j].Name })
		if len(again) > 16 {
			again = again[:16]
		}
		var rwg sync.WaitGroup
		rsem := make(chan struct{}, 4)
		for _, o := range again {
			rwg.Add(1)
			go func(o *Obligation) {
				defer rwg.Done()
				rsem <- struct{}{}
				defer func() { <-rsem }()
				res := solve(o.script(), timeout*4, nil)
				if res.Status == "unsat" {
					o.Result = res
					o.Status = "discharged"
				} else if res.Status == "sat" {
					o.Result = res
					o.Status = "failed"
				}
			}(o)
		}
		rwg.Wait()
		// an overloaded machine (more runnable processes than cores) stretches every proof: what is still undecided then
		// gets one more attempt, two at a time, with a 12x limit, before it may be reported. On an idle machine nothing
		// changes (a real violation is reported after the 4x retry as before).
		if machineOverloaded() {
			rsem2 := make(chan struct{}, 2)
			for _, o := range again {
				if o.Status != "undecided" {
					continue
				}
				rwg.Add(1)
				go func(o *Obligation) {
					defer rwg.Done()
					rsem2 <- struct{}{}
					defer func() { <-rsem2 }()
					res := solve(o.script(), timeout*12, nil)
					if res.Status == "unsat" {
						o.Result = res
						o.Status = "discharged"
					} else if res.Status == "sat" {
						o.Result = res
						o.Status = "failed"
					}
				}(o)
			}
			rwg.Wait()
		}
	}
	total, discharged, covers := 0, 0, 0
	var violations []string
	var unproved, outside, notes, funcs, samples []string
	var newUnproved []string
	perSolver := map[string]int{}
	solverSecs := 0.0
	trusted := map[string]bool{}
	seenKnown := map[string]bool{}
	for _, r := range results {
		key := unitKey(r.Unit.Pkg, r.Unit.Func)
		if r.Missing {
			name := key + "/unit/missing"
			writeReplay(*prop, name, "function under contract not found in the current tree: "+key)
			violations = append(violations, fmt.Sprintf("VIOLATION property=%s replay=%s no-failing-input-found", *prop, replayPath(*prop, name)))
			continue
		}
		funcs = append(funcs, key)
		for _, s := range r.VC.outside {
			outside = append(outside, key+": "+s)
		}
		for _, s := range r.VC.notes {
			notes = append(notes, key+": "+s)
		}
		for t := range g.used[key] {
			trusted[t] = true
		}
		if r.Unit.Opts["sweep"] {
			// zero-annotation sweep: only obligations claimed in the committed baseline can raise an alarm
			if len(r.VC.outside) > 0 {
				continue
			}
			if len(r.Inv) > 0 {
				sweepInv[key] = r.Inv
			}
			for _, o := range r.Obls {
				solverSecs += o.Result.Seconds
				if o.Cover || o.Status == "unattempted" {
					continue
				}
				if o.Status == "discharged" {
					sweepDischarged = append(sweepDischarged, o.Name)
					if sweepClaim[o.Name] || *updateBaseline {
						total++
						discharged++
						perSolver[o.Result.Solver]++
					} else {
						sweepNew++
					}
					continue
				}
				if sweepClaim[o.Name] {
					total++
					path := writeObligationReplay(g, *prop, o)
					line := fmt.Sprintf("VIOLATION property=%s replay=%s", *prop, path)
					if !replayConfirms(g, o, path) {
						line += " no-failing-input-found"
					}
					violations = append(violations, line)
				} else {
					unproved = append(unproved, o.Name)
					if o.Status == "failed" {
						sweepFailed = append(sweepFailed, fmt.Sprintf("%s\t%s\t%s", o.Name, o.Pos, strings.ReplaceAll(modelInputs(o), "\n", " ; ")))
					}
				}
			}
			continue
		}
		if len(r.VC.outside) > 0 {
			name := key + "/unit/outside-subset"
			if !unprovedOK[name] {
				writeReplay(*prop, name, "unit cannot be verified: "+strings.Join(r.VC.outside, "; "))
				violations = append(violations, fmt.Sprintf("VIOLATION property=%s replay=%s no-failing-input-found", *prop, replayPath(*prop, name)))
			}
			newUnproved = append(newUnproved, name)
		}
		for _, o := range r.Obls {
			solverSecs += o.Result.Seconds
			if o.Cover {
				covers++
				if o.Status == "failed" {
					name := o.Name
					if o.Class == "cover-return" {
						// a return statement no execution reaches under the contract: either genuinely dead code (listed in
						// the baseline) or the assumptions on that path have become contradictory -- then every obligation
						// on it is vacuous
						newUnproved = append(newUnproved, name)
						if !unprovedOK[name] {
							writeReplay(*prop, name, "VACUOUS PATH: no execution reaches this return of "+key+" under the assumed contracts (it was reachable when the baseline was written)\n"+o.Result.Output)
							violations = append(violations, fmt.Sprintf("VIOLATION property=%s replay=%s no-failing-input-found", *prop, replayPath(*prop, name)))
						}
						continue
					}
					writeReplay(*prop, name, "VACUOUS: the precondition of "+key+" is unsatisfiable\n"+o.Result.Output)
					violations = append(violations, fmt.Sprintf("VIOLATION property=%s replay=%s no-failing-input-found", *prop, replayPath(*prop, name)))
				}
				continue
			}
			if *verbose {
				fmt.Printf("  %-11s %-7s %5.2fs %s\n", o.Status, o.Result.Solver, o.Result.Seconds, o.Name)
			}
			if o.Status == "discharged" && *updateBaseline && o.Result.Seconds > 3.0 && r.Unit.MemoClass == "" {
				// proofs that need more than 3 s on the unchanged tree are not claimed (they could time out under load)
				newUnproved = append(newUnproved, o.Name)
				unproved = append(unproved, o.Name+" (slow proof, not claimed)")
				continue
			}
			if o.Status == "discharged" {
				total++
				discharged++
				perSolver[o.Result.Solver]++
				if len(samples) < 6 {
					samples = append(samples, fmt.Sprintf("%s [%s, %.2fs, %d bytes]", o.Name, o.Result.Solver, o.Result.Seconds, len(o.script())))
				}
				continue
			}
			newUnproved = append(newUnproved, o.Name)
			if unprovedOK[o.Name] {
				unproved = append(unproved, o.Name)
				continue
			}
			if k, ok := known[o.Name]; ok {
				fmt.Printf("KNOWN-FINDING: property=%s %s\n", *prop, k.What)
				seenKnown[o.Name] = true
				unproved = append(unproved, o.Name+" (known finding)")
				continue
			}
			if *updateBaseline {
				unproved = append(unproved, o.Name)
				continue
			}
			total++
			path := writeObligationReplay(g, *prop, o)
			line := fmt.Sprintf("VIOLATION property=%s replay=%s", *prop, path)
			if !replayConfirms(g, o, path) {
				line += " no-failing-input-found"
			}
			violations = append(violations, line)
		}
	}
	sort.Strings(newUnproved)
	if *updateBaseline {
		sort.Strings(sweepDischarged)
		if len(sweepFailed) > 0 {
			sort.Strings(sweepFailed)
			os.MkdirAll(filepath.Join(verifDir, "out"), 0o755)
			os.WriteFile(filepath.Join(verifDir, "out", *prop+"-sweep-failed.tsv"), []byte(strings.Join(sweepFailed, "\n")+"\n"), 0o644)
		}
		nb := baseline{Unproved: newUnproved, Floor: discharged * 9 / 10, SweepClaimed: sweepDischarged, SweepInv: sweepInv}
		// known findings are not part of the unproved baseline
		var keep []string
		for _, n := range nb.Unproved {
			if _, ok := known[n]; !ok {
				keep = append(keep, n)
			}
		}
		nb.Unproved = keep
		os.MkdirAll(filepath.Join(verifDir, "baseline"), 0o755)
		b, _ := json.MarshalIndent(nb, "", " ")
		os.WriteFile(filepath.Join(verifDir, "baseline", *prop+".json"), append(b, '\n'), 0o644)
		fmt.Printf("baseline updated: %d unproved, floor %d\n", len(nb.Unproved), nb.Floor)
		violations = nil
	} else if discharged < bl.Floor {
		name := "vacuity/obligation-count"
		writeReplay(*prop, name, fmt.Sprintf("only %d obligations discharged; the committed floor is %d (obligations disappeared)", discharged, bl.Floor))
		violations = append(violations, fmt.Sprintf("VIOLATION property=%s replay=%s no-failing-input-found", *prop, replayPath(*prop, name)))
	}

	// evidence
	var tb []string
	for t := range trusted {
		tb = append(tb, t)
	}
	sort.Strings(tb)
	tb = append(tb, "SMT solvers z3 4.8.12, z3 5.1.0 (z3-new), cvc5 1.0 (first unsat answer wins)", "govc VC generator (this repository, unverified)", "golang.org/x/tools/go/ssa v0.29.0 front end")
	assumptions := []string{
		"sequential execution; no goroutine interleavings are modelled",
		"signed 64-bit arithmetic is treated as mathematical (no overflow) unless the unit opts into arith obligations; unsigned and narrow arithmetic wraps",
		"no string or slice is longer than 2^56",
		"package debuglog and the listed pure library packages have no effect on verified state",
		"default build tags plus 'verif' (comment-only contract files)",
		"partial correctness: termination only where a loop carries a decreases clause",
		"stores through scalar pointers of unknown origin are assumed not to alias struct fields the verified function has not accessed",
	}
	assumptions = append(assumptions, g.C.Scan...)
	for _, n := range notes {
		assumptions = append(assumptions, "approximation: "+n)
	}
	ev := map[string]any{
		"property_id": *prop, "tier": *tier, "seed": seed, "level": "proof",
		"coverage": map[string]any{
			"obligations": total, "discharged": discharged,
			"checker_cmd":                      fmt.Sprintf("./bin/govc check --property %s --tier %s", *prop, *tier),
			"trusted_base":                     tb,
			"functions_under_contract":         funcs,
			"by_backend":                       perSolver,
			"solver_seconds":                   solverSecs,
			"unproved_not_claimed":             unproved,
			"outside_subset":                   outside,
			"vacuity_covers":                   covers,
			"samples":                          samples,
			"known_findings":                   len(seenKnown),
			"sweep_new_discharged_not_claimed": sweepNew,
		},
		"assumptions": assumptions,
		"wall_s":      time.Since(start).Seconds(),
		"violations":  len(violations),
	}
	evDir := filepath.Join(verifDir, "evidence")
	if d := os.Getenv("GOVC_EVIDENCE_DIR"); d != "" {
		evDir = d
	}
	os.MkdirAll(evDir, 0o755)
	b, _ := json.MarshalIndent(ev, "", " ")
	os.WriteFile(filepath.Join(evDir, *prop+".json"), append(b, '\n'), 0o644)

	fmt.Printf("property %s: %d units, %d obligations, %d discharged, %d unproved (not claimed), %d violations, %.1fs\n",
		*prop, len(funcs), total, discharged, len(unproved), len(violations), time.Since(start).Seconds())
	if len(violations) > 0 {
		for _, v := range violations {
			fmt.Println(v)
		}
		return 1
	}
	if discharged == 0 {
		fmt.Fprintln(os.Stderr, "no obligation discharged")
		return 2
	}
	return 0
}

func replayPath(prop, name string) string {
	base := filepath.Join(verifDir, "out", "replay")
	if d := os.Getenv("GOVC_REPLAY_DIR"); d != "" {
		base = d
	}
	return filepath.Join(base, prop, sanitize(name)+".txt")
}

func writeReplay(prop, name, text string) string {
	p := replayPath(prop, name)
	os.MkdirAll(filepath.Dir(p), 0o755)
	os.WriteFile(p, []byte("obligation: "+name+"\n\n"+text+"\n"), 0o644)
	return p
}

func writeObligationReplay(g *Global, prop string, o *Obligation) string {
	var sb strings.Builder
	fmt.Fprintf(&sb, "class: %s\nfunction: %s\nposition: %s\ngoal: %s\nsolver: %s status=%s (%.2fs)\n\n", o.Class, o.Fn, o.Pos, o.Text, o.Result.Solver, o.Result.Status, o.Result.Seconds)
	sb.WriteString("solver output:\n" + o.Result.Output + "\n")
	if o.Result.Status == "sat" {
		sb.WriteString("\ncounterexample inputs:\n" + modelInputs(o) + "\n")
	}
	sb.WriteString("\n---- SMT query ----\n" + o.script())
	return writeReplay(prop, o.Name, sb.String())
}

// ---------- unit command (debugging) ----------

func cmdUnit(args []string) int {
	fs := flag.NewFlagSet("unit", flag.ExitOnError)
	timeout := fs.Int("t", 10, "timeout")
	dump := fs.String("dump", "", "dump the SMT script of the obligation whose name contains this")
	sweep := fs.Bool("sweep", false, "match contract-free functions (safety sweep units)")
	fs.Parse(args)
	g, err := loadAll()
	if err != nil {
		fmt.Fprintln(os.Stderr, err)
		return 2
	}
	workers := make(chan struct{}, 8)
	rc := 0
	for _, pat := range fs.Args() {
		var matched []*Unit
		for k, u := range g.C.Units {
			if !u.Trusted && strings.Contains(k, pat) {
				matched = append(matched, u)
			}
		}
		if *sweep {
			for _, u := range g.sweepUnits() {
				if strings.Contains(unitKey(u.Pkg, u.Func), pat) {
					matched = append(matched, u)
				}
			}
		}
		sort.Slice(matched, func(i, j int) bool { return matched[i].Func < matched[j].Func })
		if len(matched) == 0 {
			fmt.Println("no unit matches", pat)
			rc = 2
		}
		for _, u := range matched {
			r := g.runUnit(u, *timeout, workers)
			fmt.Printf("== %s (%.1fs)\n", unitKey(u.Pkg, u.Func), r.Seconds)
			if r.Missing {
				fmt.Println("   MISSING function")
				continue
			}
			for _, s := range r.VC.outside {
				fmt.Println("   OUTSIDE:", s)
			}
			if os.Getenv("GOVC_LOOPS") != "" {
				for h, li := range r.VC.loops {
					var names []string
					for _, in := range h.Instrs {
						if phi, ok := in.(*ssa.Phi); ok {
							names = append(names, phiAlias(phi.Comment))
						}
					}
					pos := ""
					for _, in := range h.Instrs {
						if in.Pos().IsValid() {
							pos = g.fset.Position(in.Pos()).String()
							break
						}
					}
					fmt.Printf("   loop %d: header block %d (%s) vars %v at %s\n", li.ordinal, h.Index, h.Comment, names, pos)
				}
			}
			for _, s := range r.VC.notes {
				fmt.Println("   note:", s)
			}
			for _, o := range r.Obls {
				fmt.Printf("   %-11s %-7s %5.2fs %s   [%s]\n", o.Status, o.Result.Solver, o.Result.Seconds, o.Name, o.Pos)
				if o.Status != "discharged" && o.Result.Status == "sat" {
					if o.Static {
						fmt.Println("      why:", strings.ReplaceAll(o.Result.Output, "\n", "\n           "))
					} else {
						fmt.Println("      cex:", strings.ReplaceAll(modelInputs(o), "\n", "\n           "))
					}
				}
				if o.Status == "undecided" && o.Candidate != "" {
					oo := *o
					oo.Result.Output = o.Candidate
					fmt.Println("      candidate (quantified facts dropped):", strings.ReplaceAll(modelInputs(&oo), "\n", "\n           "))
				}
				if o.Status != "discharged" && o.Result.Status == "error" {
					fmt.Println("      err:", firstLines(o.Result.Output, 4))
				}
				if *dump != "" && strings.Contains(o.Name, *dump) {
					f := filepath.Join(os.TempDir(), "govc-dump-"+sanitize(o.Name)+".smt2")
					os.WriteFile(f, []byte("(set-logic ALL)\n"+o.script()+"(check-sat)\n(get-model)\n"), 0o644)
					fmt.Println("      dumped to", f)
				}
			}
		}
	}
	return rc
}

func cmdList(args []string) int {
	g, err := loadAll()
	if err != nil {
		fmt.Fprintln(os.Stderr, err)
		return 2
	}
	var ks []string
	for k, u := range g.C.Units {
		t := ""
		if u.Trusted {
			t = " trusted"
		}
		ks = append(ks, fmt.Sprintf("%s props=%v%s", k, u.Props, t))
	}
	sort.Strings(ks)
	for _, k := range ks {
		fmt.Println(k)
	}
	return 0
}

func cmdWrites(args []string) int {
	g, err := loadAll()
	if err != nil {
		fmt.Fprintln(os.Stderr, err)
		return 2
	}
	if len(args) == 3 && args[0] == "why" {
		for k, fn := range g.fnByKey {
			if !strings.HasSuffix(k, args[1]) {
				continue
			}
			g.traceSub = args[2]
			g.fnWrites(fn, fn.Pkg.Pkg)
			for _, l := range g.traceOut {
				fmt.Println("   ", l)
			}
		}
		return 0
	}
	for _, pat := range args {
		for k, fn := range g.fnByKey {
			if strings.HasSuffix(k, pat) {
				start := time.Now()
				ws, all := g.fnWrites(fn, fn.Pkg.Pkg)
				fmt.Printf("== %s all=%v (%d keys, %.1fs)\n", k, all, len(ws), time.Since(start).Seconds())
				for _, w := range sortedKeys(ws) {
					if os.Getenv("GOVC_ALLKEYS") != "" || strings.Contains(w, "corazawaf") || strings.Contains(w, "$") || strings.HasPrefix(w, "gh!") {
						fmt.Println("   ", w)
					}
				}
			}
		}
	}
	return 0
}

func cmdMemo(args []string) int {
	g, err := loadAll()
	if err != nil {
		fmt.Fprintln(os.Stderr, err)
		return 2
	}
	for _, s := range g.findMemoSites() {
		c := &termCtx{suffix: "", decls: map[string]string{}, memo: map[ssa.Value]string{}, fn: s.fn, g: g}
		fmt.Printf("site %s class=%q key=%s\n", s.name(g), s.class, c.term(s.key, 0))
		if s.closure != nil {
			for _, in := range closureInputs(s.closure) {
				fmt.Printf("      input %s\n", in(c))
			}
		}
	}
	obls := g.memoObligations()
	solveRaw(obls, 10, make(chan struct{}, 8))
	for _, o := range obls {
		fmt.Printf("  %-11s %-7s %5.2fs %s\n", o.Status, o.Result.Solver, o.Result.Seconds, o.Name)
		if len(args) > 0 && strings.Contains(o.Name, args[0]) {
			fmt.Println(o.Raw)
			fmt.Println(firstLines(o.Result.Output, 30))
		}
	}
	return 0
}

// footprintObligations: `excludes T1, T2, globals` -- the inferred write footprint of the function (its own stores
// plus those of everything it may call, objects it allocates itself excepted) contains no field of the named struct
// types (including the structs embedded in them by value) and no package-level variable. Decided by the effect
// inference, not by a solver.
func (g *Global) footprintObligations(vc *FnVC, u *Unit, fn *ssa.Function) []*Obligation {
	if len(u.Excludes) == 0 || fn.Pkg == nil {
		return nil
	}
	ws, all := g.fnWrites(fn, fn.Pkg.Pkg)
	env := vc.envAt(&State{m: map[string]string{}}, nil)
	var out []*Obligation
	for _, item := range u.Excludes {
		var prefixes []string
		if item == "globals" {
			prefixes = []string{"G!"}
		} else if strings.HasPrefix(item, "pkg:") {
			// no field of any struct type declared in that package
			if g.pkgByPath(item[4:]) == nil {
				vc.contractError("excludes %s: no such package", item)
				continue
			}
			prefixes = []string{"F!" + item[4:] + "."}
		} else {
			t, err := env.parseType(item)
			if err != nil {
				vc.contractError("excludes %s: %v", item, err)
				continue
			}
			var add func(t types.Type, depth int)
			add = func(t types.Type, depth int) {
				st, ok := t.Underlying().(*types.Struct)
				if !ok || depth > 4 {
					return
				}
				prefixes = append(prefixes, "F!"+typeName(t)+"!")
				for i := 0; i < st.NumFields(); i++ {
					if isStruct(st.Field(i).Type()) {
						add(st.Field(i).Type(), depth+1)
					}
				}
			}
			add(t, 0)
		}
		var bad []string
		for _, k := range sortedKeys(ws) {
			for _, p := range prefixes {
				if strings.HasPrefix(k, p) {
					bad = append(bad, k)
				}
			}
		}
		o := &Obligation{Name: unitKey(u.Pkg, u.Func) + "/footprint/excludes/" + item + "#1", Class: "footprint", Unit: u, Fn: fn.String(),
			Text: "the write footprint contains nothing of " + item, Static: true, Raw: "; decided by write-set inference\n(assert false)\n(check-sat)\n"}
		o.Result = SolverResult{Solver: "effect-inference", Status: "unsat"}
		o.Status = "discharged"
		if all || len(bad) > 0 {
			o.Status = "failed"
			o.Result.Status = "sat"
			why := "the function may call code with unknown effects"
			if len(bad) > 0 {
				why = "written: " + strings.Join(bad, ", ") + "\n" + strings.Join(g.whyWrites(fn, bad[0]), "\n  ")
			}
			o.Result.Output = why
			o.Raw = "; " + strings.ReplaceAll(why, "\n", "\n; ") + "\n(assert true)\n(check-sat)\n"
		}
		out = append(out, o)
	}
	return out
}

// whyWrites recomputes the write set of fn recording the call chain through which key is reached.
func (g *Global) whyWrites(fn *ssa.Function, key string) []string {
	g.mu.Lock()
	delete(g.writes, writeKey{fn, fn.Pkg.Pkg})
	g.traceSub = key
	g.traceOut = nil
	g.mu.Unlock()
	g.fnWrites(fn, fn.Pkg.Pkg)
	g.mu.Lock()
	out := g.traceOut
	g.traceSub = ""
	g.traceOut = nil
	g.mu.Unlock()
	return out
}
