#!/usr/bin/env python3
"""Rewrites the seed table in DESIGN.md (between <!-- seedtable --> markers) from seeded/*/meta.json."""
import json,os,re
rows=[]
for sd in sorted(os.listdir('/verif/seeded'), key=lambda x:(x.split('-')[0], int(x.split('-m')[1]))):
    try: m=json.load(open(f'/verif/seeded/{sd}/meta.json'))
    except Exception: continue
    d=m.get('detected_by') or {}
    res=d.get('result','not run') if isinstance(d,dict) else str(d)
    first=(d.get('first_violations','') if isinstance(d,dict) else '')
    names=[re.sub(r'^github\.com\.corazawaf\.coraza\.v3\.','',x).replace('.txt','') for x in first.split() if x.endswith('.txt')][:2]
    summ=(m.get('summary','') or '').replace('|','/').replace('\n',' ')[:150]
    rows.append(f"| {sd} | {res} | {', '.join(names)} | {summ} |")
t="| seed | quick check of its property | first failing obligations | change (short) |\n|---|---|---|---|\n"+"\n".join(rows)+"\n"
p='/verif/DESIGN.md'; s=open(p).read()
i=s.index('<!-- seedtable -->')+len('<!-- seedtable -->\n'); j=s.index('<!-- /seedtable -->')
open(p,'w').write(s[:i]+t+s[j:])
print(len(rows),'rows')
