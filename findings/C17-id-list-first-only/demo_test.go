package coraza

import "testing"

// C17: "lists ... behave like the enumeration of their members".
// SecRuleUpdateTargetById 1 2 "REQUEST_HEADERS:foo" must add the target to rule 1 AND rule 2.
func TestC17ListOnlyFirstIdApplied(t *testing.T) {
	run := func(directives string) bool {
		waf, err := NewWAF(NewWAFConfig().WithDirectives(directives))
		if err != nil {
			t.Fatal(err)
		}
		tx := waf.NewTransaction()
		defer tx.Close()
		tx.AddRequestHeader("foo", "bad")
		return tx.ProcessRequestHeaders() != nil
	}
	base := `
SecRuleEngine On
SecRule ARGS "@contains bad" "id:1,phase:1,pass"
SecRule ARGS "@contains bad" "id:2,phase:1,deny,status:403"
`
	enumerated := run(base + "SecRuleUpdateTargetById 1 \"REQUEST_HEADERS:foo\"\nSecRuleUpdateTargetById 2 \"REQUEST_HEADERS:foo\"\n")
	listed := run(base + "SecRuleUpdateTargetById 1 2 \"REQUEST_HEADERS:foo\"\n")
	if enumerated != listed {
		t.Fatalf("enumerated directives interrupt=%v, list form interrupt=%v: the second listed id was skipped silently", enumerated, listed)
	}
}
