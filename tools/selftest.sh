#!/bin/bash
# Must-fail self test of the verifier: applies each canary patch (a deliberate property-breaking edit that still
# compiles) to a scratch copy of /repo and requires the property's check to report a VIOLATION there.
# usage: tools/selftest.sh [property ...]      (default: every property that has canaries)
set -u
cd /verif
props=("$@")
[ ${#props[@]} -eq 0 ] && props=($(ls canaries 2>/dev/null))
fail=0
total=0
scratch=$(mktemp -d "${TMPDIR:-/tmp}/govc-selftest.XXXXXX")
trap 'rm -rf "$scratch"' EXIT
for p in "${props[@]}"; do
  for patch in canaries/$p/*.patch; do
    [ -f "$patch" ] || continue
    total=$((total+1))
    rm -rf "$scratch/repo"; mkdir -p "$scratch/repo"
    (cd /repo && git archive HEAD) | tar -x -C "$scratch/repo"
    if ! (cd "$scratch/repo" && patch -p1 -s < "/verif/$patch"); then echo "SELFTEST-ERROR $patch does not apply"; fail=1; continue; fi
    if ! (cd "$scratch/repo" && GOFLAGS= GOPROXY=off go build ./... 2>/dev/null); then echo "SELFTEST-ERROR $patch does not compile"; fail=1; continue; fi
    out=$(GOVC_REPO="$scratch/repo" GOVC_EVIDENCE_DIR="$scratch/ev" GOVC_REPLAY_DIR="$scratch/replay" ./bin/govc check --property "$p" --tier quick 2>&1)
    if echo "$out" | grep -q "^VIOLATION property=$p "; then
      echo "caught   $patch: $(echo "$out" | grep -c '^VIOLATION') violation(s), e.g. $(echo "$out" | grep '^VIOLATION' | head -1 | sed 's/.*replay=//' | xargs basename)"
    else
      echo "SELFTEST-FAIL $patch was NOT detected"; echo "$out" | tail -3; fail=1
    fi
  done
done
echo "selftest: $total canaries, fail=$fail"
exit $fail
