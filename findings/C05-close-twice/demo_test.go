package corazawaf

import "testing"

// Close called twice on the same transaction puts the object into the pool twice: the next two NewTransaction calls
// hand out the SAME object to two "different" transactions (obligation (*Transaction).Close/pre/...iface:Pool.Put/once).
func TestCloseTwicePoolsTwice(t *testing.T) {
	hits := 0
	for attempt := 0; attempt < 200 && hits == 0; attempt++ {
		waf := NewWAF()
		tx := waf.NewTransaction()
		if err := tx.Close(); err != nil {
			t.Fatal(err)
		}
		if err := tx.Close(); err != nil { // documented as harmless by callers (e.g. deferred Close + explicit Close)
			t.Fatal(err)
		}
		a := waf.NewTransaction()
		b := waf.NewTransaction()
		if a == b {
			hits++
			a.AddGetRequestArgument("secret", "of-a")
			got := b.variables.argsGet.Get("secret")
			t.Errorf("two live transactions share one object: a=%p b=%p ids %q/%q; b sees a's argument: %v", a, b, a.id, b.id, got)
		}
	}
	if hits == 0 {
		t.Log("pool did not hand the object out twice in 200 attempts (sync.Pool is free to drop objects)")
	}
}
