package corazawaf

import (
	"io"
	"strings"
	"testing"

	"github.com/corazawaf/coraza/v3/types"
)

// a reader without Len()
type plainReader struct{ r io.Reader }

func (p plainReader) Read(b []byte) (int, error) { return p.r.Read(b) }

func bodyioTx(t *testing.T, action types.BodyLimitAction) *Transaction {
	waf := NewWAF()
	waf.RuleEngine = types.RuleEngineOn
	waf.RequestBodyAccess = true
	waf.ResponseBodyAccess = true
	waf.RequestBodyLimit = 10
	waf.ResponseBodyLimit = 10
	waf.RequestBodyLimitAction = action
	waf.ResponseBodyLimitAction = action
	tx := waf.NewTransaction()
	t.Cleanup(func() { _ = tx.Close() })
	return tx
}

// refusedOverfull / countInRange: 8 bytes buffered, then ctl:requestBodyLimit=5 (what the ctl action does: tx.RequestBodyLimit = 5).
// Reject: the slice entry point refuses with 413, the reader entry point (unknown length) silently accepts.
func TestBodyioRejectOverfullRequest(t *testing.T) {
	tx := bodyioTx(t, types.BodyLimitActionReject)
	if it, n, err := tx.WriteRequestBody([]byte("12345678")); it != nil || n != 8 || err != nil {
		t.Fatalf("setup: %v %d %v", it, n, err)
	}
	tx.RequestBodyLimit = 5
	it, n, err := tx.ReadRequestBodyFrom(plainReader{strings.NewReader("abc")})
	t.Logf("ReadRequestBodyFrom(unknown length): interruption=%v n=%d err=%v INBOUND_DATA_ERROR=%q", it, n, err, tx.variables.inboundDataError.Get())
	if it == nil || it.Status != 413 {
		t.Errorf("reader entry point: body of 8(+3) bytes above the limit 5 under Reject is not refused: interruption=%v", it)
	}
	it2, _, _ := tx.WriteRequestBody([]byte("abc"))
	t.Logf("WriteRequestBody in the same state: interruption=%+v", it2)
}

func TestBodyioRejectOverfullResponse(t *testing.T) {
	tx := bodyioTx(t, types.BodyLimitActionReject)
	if it, n, err := tx.WriteResponseBody([]byte("12345678")); it != nil || n != 8 || err != nil {
		t.Fatalf("setup: %v %d %v", it, n, err)
	}
	tx.ResponseBodyLimit = 5
	it, n, err := tx.ReadResponseBodyFrom(plainReader{strings.NewReader("abc")})
	t.Logf("ReadResponseBodyFrom(unknown length): interruption=%v n=%d err=%v OUTBOUND_DATA_ERROR=%q", it, n, err, tx.variables.outboundDataError.Get())
	if it == nil || it.Status != 500 {
		t.Errorf("reader entry point: body above the limit under Reject is not refused: interruption=%v", it)
	}
	it2, _, _ := tx.WriteResponseBody([]byte("abc"))
	t.Logf("WriteResponseBody in the same state: interruption=%+v", it2)
}

// processedOverfull: same state under ProcessPartial: the slice entry point runs the body phase, the reader one does not.
func TestBodyioPartialOverfullRequest(t *testing.T) {
	tx := bodyioTx(t, types.BodyLimitActionProcessPartial)
	tx.ProcessRequestHeaders()
	if it, n, err := tx.WriteRequestBody([]byte("12345678")); it != nil || n != 8 || err != nil {
		t.Fatalf("setup: %v %d %v", it, n, err)
	}
	tx.RequestBodyLimit = 5
	it, n, err := tx.ReadRequestBodyFrom(plainReader{strings.NewReader("abc")})
	t.Logf("ReadRequestBodyFrom(unknown length): interruption=%v n=%d err=%v lastPhase=%d INBOUND_DATA_ERROR=%q", it, n, err, tx.lastPhase, tx.variables.inboundDataError.Get())
	if tx.lastPhase != types.PhaseRequestBody {
		t.Errorf("reader entry point: ProcessPartial with the limit reached did not run the request body phase (lastPhase=%d)", tx.lastPhase)
	}
	tx2 := bodyioTx(t, types.BodyLimitActionProcessPartial)
	tx2.ProcessRequestHeaders()
	_, _, _ = tx2.WriteRequestBody([]byte("12345678"))
	tx2.RequestBodyLimit = 5
	_, _, _ = tx2.WriteRequestBody([]byte("abc"))
	t.Logf("WriteRequestBody in the same state: lastPhase=%d INBOUND_DATA_ERROR=%q", tx2.lastPhase, tx2.variables.inboundDataError.Get())
}

// countIsStored: Reject, reader of unknown length that reaches the limit: 7 bytes are consumed and stored, the call reports 0.
func TestBodyioRejectCountRequest(t *testing.T) {
	tx := bodyioTx(t, types.BodyLimitActionReject)
	_, _, _ = tx.WriteRequestBody([]byte("123"))
	src := strings.NewReader("abcdefghijkl")
	it, n, err := tx.ReadRequestBodyFrom(plainReader{src})
	t.Logf("interruption=%+v n=%d err=%v buffered=%d left in reader=%d", it, n, err, tx.requestBodyBuffer.length, src.Len())
	if int64(n) != tx.requestBodyBuffer.length-3 {
		t.Errorf("returned count %d, but %d bytes were taken from the reader and stored", n, tx.requestBodyBuffer.length-3)
	}
}

func TestBodyioRejectCountResponse(t *testing.T) {
	tx := bodyioTx(t, types.BodyLimitActionReject)
	_, _, _ = tx.WriteResponseBody([]byte("123"))
	src := strings.NewReader("abcdefghijkl")
	it, n, err := tx.ReadResponseBodyFrom(plainReader{src})
	t.Logf("interruption=%+v n=%d err=%v buffered=%d left in reader=%d", it, n, err, tx.responseBodyBuffer.length, src.Len())
	if int64(n) != tx.responseBodyBuffer.length-3 {
		t.Errorf("returned count %d, but %d bytes were taken from the reader and stored", n, tx.responseBodyBuffer.length-3)
	}
}
