package auditlog

import (
	"path/filepath"
	"testing"

	"github.com/corazawaf/coraza/v3/experimental/plugins/plugintypes"
	"github.com/corazawaf/coraza/v3/types"
)

// After a failed Init (index file cannot be opened) the concurrent writer has a formatter but no index logger:
// the error IS returned, but a later Write panics with a nil dereference instead of being a no-op / returning an error.
func TestXHalfArmed(t *testing.T) {
	dir := t.TempDir()
	w := &concurrentWriter{}
	err := w.Init(plugintypes.AuditLogConfig{
		Target:    filepath.Join(dir, "no", "such", "dir", "index.log"),
		Dir:       dir,
		DirMode:   0o777,
		FileMode:  0o666,
		Formatter: &nativeFormatter{},
	})
	if err == nil {
		t.Fatal("expected an error from Init")
	}
	t.Logf("Init error (returned, fine): %v; formatter set=%v log nil=%v", err, w.formatter != nil, w.log == nil)
	al := &Log{
		Parts_: []types.AuditLogPart{types.AuditLogPartHeader, types.AuditLogPartEndMarker},
		Transaction_: Transaction{ID_: "abc", Timestamp_: "ts"},
	}
	defer func() {
		if r := recover(); r != nil {
			t.Fatalf("Write after failed Init PANICS: %v", r)
		}
	}()
	if err := w.Write(al); err != nil {
		t.Logf("Write returned error: %v", err)
	}
}
