package main

import (
	"bufio"
	"fmt"
	"os"
	"path/filepath"
	"sort"
	"strings"
)

// Clause is one requires/ensures/invariant line with its source text.
// GuardSpec: `guards T.f by EXPR` -- a lock discipline obligation (class `guarded`) at every instruction of the body that
// takes the address of field f of an object of struct type T; `self` in EXPR is that object.
type GuardSpec struct {
	Type, Field string
	C           Clause
}

type Clause struct {
	Text string
	E    Expr
	Name string // optional label  "name: expr"
}

// EnumSpec: an obligation family enumerated from go/types (one obligation per struct field).
type EnumSpec struct {
	Obj    string
	E      Expr
	Func   string
	Arg    int
	Except map[string]bool
}

type LoopSpec struct {
	Ordinal    int      // 1-based loop ordinal in header block order
	Vars       []string // anchor: phi names expected at that header
	Invariants []Clause
	Decreases  *Clause
	Steps      []Clause // hold at the end of every iteration (loop variables = values for the next iteration)
	Afters     []Clause // hold when the loop terminates normally (edge from its header to the code after it)
	Returns    []Clause // hold at every `return` statement lexically inside the loop body (`result` visible)
	Exits      []Clause // hold whenever the loop is left by break/return (not by its normal termination)
}

// AtSpec: an assertion attached to the instructions whose source text contains Text.
type AtSpec struct {
	Text     string
	C        Clause
	CallOnly bool // at call "text": only call instructions match; arg(i) denotes their arguments
	MapOnly  bool // at update "text": only map assignments m[k] = v match; arg(0), arg(1), arg(2) = m, k, v
}

type Unit struct {
	Pkg         string // import path of the package the contract file belongs to ("" for spec files: name is qualified)
	Func        string // RelString form, or qualified for spec files
	Props       []string
	Trusted     bool // assumed contract (library); body not verified
	Requires    []Clause
	Ensures     []Clause
	Modifies    []string // raw items; nil = inferred; "nothing"
	HasMod      bool
	ModInferred bool        // modifies = the inferred write set of the body, plus the listed items
	Excludes    []string    // type names / "globals": the inferred write footprint of the function contains no field of them
	Lemmas      []Clause    // closed formulas proved on their own (class "lemma"), e.g. injectivity of a cache key
	Preserves   []string    // type names: no field of any pre-existing object of these struct types changes
	Guards      []GuardSpec // guards T.f by EXPR(self): every access to field f of a T in the body happens while EXPR holds
	Ats         []AtSpec
	MemoClass   string     // memoize CLASS: value class of the build-cache keys made in this function (C13)
	Pins        []EnumSpec // pins OBJ [except f,...]: every field of OBJ's struct type is assigned on every path
	Visits      []EnumSpec // visits OBJ FUNC ARGIDX [except f,...]: every (pointer) field of OBJ is passed to FUNC
	Loops       map[int]*LoopSpec
	Opts        map[string]bool // e.g. "noinfer", "arith", "nosafety"
	File        string
	Line        int
	Pure        bool
	FnKey       string // when set: the function this unit is checked on (variant units: "(*T).M@Iface" refinement checks)
}

type SpecFunc struct {
	Name    string
	Params  []Binder
	Result  string
	Body    Expr // nil => uninterpreted
	BodyTxt string
	Pkg     string
}

type Axiom struct {
	Name string
	Text string
	E    Expr
	Pkg  string
}

type GhostVar struct {
	Name string
	Type string
	Pkg  string
}

// GhostField is a specification-only field of a struct type.
type GhostField struct {
	Owner string // qualified type name
	Name  string
	Type  string
	Pkg   string
}

func (g *GhostField) key() string { return "F!" + g.Owner + "!$" + g.Name }

func (c *Contracts) ghostField(owner, name string) *GhostField {
	if m := c.GhostFields[owner]; m != nil {
		return m[name]
	}
	return nil
}

type Contracts struct {
	Units       map[string]*Unit // key: pkgpath + "::" + func  (or qualified for trusted specs)
	Specs       map[string]*SpecFunc
	Axioms      []*Axiom
	Ghosts      map[string]*GhostVar
	GhostFields map[string]map[string]*GhostField
	Files       []string
	Scan        []string // lines mentioning assume/axiom/trusted (for the evidence 'assumptions' list)
	Refines     []*RefineSpec
}

// RefineSpec: `refines <iface pkg path>::<Iface> by <RecvType> state <ghost>[,<ghost>] props Cxx[,Cyy] [except M1,M2]`
// followed by `abstr NAME := EXPR(self)` lines. The trusted contracts written for the interface's methods in terms of the
// abstraction functions NAME(<state>, recv) are re-stated over the implementation (NAME(state, recv) becomes EXPR with
// self := the receiver, NAME(old(state), recv) becomes old(EXPR)) and proved on the body of every implementing method.
type RefineSpec struct {
	Pkg         string // implementing package
	IfacePkg    string
	Iface       string
	Recv        string // "*Transaction"
	State       []string
	Props       []string
	Except      map[string]bool
	Abstr       map[string]Expr
	AbstrParams map[string][]string
	File        string
	Line        int
}

func NewContracts() *Contracts {
	return &Contracts{Units: map[string]*Unit{}, Specs: map[string]*SpecFunc{}, Ghosts: map[string]*GhostVar{}, GhostFields: map[string]map[string]*GhostField{}}
}

var clauseKeywords = map[string]bool{"guards": true, "excludes": true, "lemma": true, "returns": true, "after": true, "preserves": true, "step": true, "exits": true, "at": true, "memoize": true, "pins": true, "visits": true, "requires": true, "ensures": true, "modifies": true, "invariant": true,
	"decreases": true, "loop": true, "func": true, "spec": true, "define": true, "axiom": true, "ghost": true,
	"opts": true, "pure": true, "end": true, "trusted": true, "refines": true, "abstr": true}

// ParseFile reads one contract file. pkgPath is the Go import path of the package it sits in ("" for /verif/specs).
func (c *Contracts) ParseFile(path, pkgPath string) error {
	f, err := os.Open(path)
	if err != nil {
		return err
	}
	defer f.Close()
	c.Files = append(c.Files, path)
	sc := bufio.NewScanner(f)
	sc.Buffer(make([]byte, 1<<20), 1<<20)
	type rawClause struct {
		kw, text string
		line     int
	}
	var raws []rawClause
	ln := 0
	for sc.Scan() {
		ln++
		line := sc.Text()
		t := strings.TrimSpace(line)
		if !strings.HasPrefix(t, "//@") {
			continue
		}
		t = strings.TrimSpace(strings.TrimPrefix(t, "//@"))
		if t == "" || strings.HasPrefix(t, "--") {
			continue
		}
		// strip trailing comment " -- ..."
		if i := strings.Index(t, " -- "); i >= 0 {
			t = strings.TrimSpace(t[:i])
		}
		kw := t
		rest := ""
		if i := strings.IndexAny(t, " \t"); i >= 0 {
			kw, rest = t[:i], strings.TrimSpace(t[i+1:])
		}
		if clauseKeywords[kw] {
			raws = append(raws, rawClause{kw, rest, ln})
		} else if len(raws) > 0 {
			raws[len(raws)-1].text += " " + t
		} else {
			return fmt.Errorf("%s:%d: continuation without clause", path, ln)
		}
	}
	var cur *Unit
	var curLoop *LoopSpec
	extending := false
	mkClause := func(r rawClause) (Clause, error) {
		text := r.text
		name := ""
		// optional label: ident ':' (but not '::')
		if i := strings.Index(text, ":"); i > 0 && !strings.HasPrefix(text[i:], "::") && isPlainIdent(text[:i]) {
			name = text[:i]
			text = strings.TrimSpace(text[i+1:])
		}
		e, err := ParseExpr(text)
		if err != nil {
			return Clause{}, fmt.Errorf("%s:%d: %v", path, r.line, err)
		}
		if extending && name == "" {
			return Clause{}, fmt.Errorf("%s:%d: clauses of an `extend` unit must carry a label", path, r.line)
		}
		if strings.HasPrefix(name, "def_") {
			c.Scan = append(c.Scan, fmt.Sprintf("%s:%d: definitional ghost effect (assumed at call sites, not checked in the body): %s", filepath.Base(path), r.line, text))
		}
		return Clause{Text: text, E: e, Name: name}, nil
	}
	for _, r := range raws {
		low := strings.ToLower(r.kw + " " + r.text)
		if r.kw == "axiom" || r.kw == "trusted" || strings.Contains(low, "assume") {
			c.Scan = append(c.Scan, fmt.Sprintf("%s:%d: %s %s", filepath.Base(path), r.line, r.kw, r.text))
		}
		switch r.kw {
		case "func":
			// func NAME [props C01,C02] [trusted]
			fields := strings.Fields(r.text)
			name := ""
			var rest []string
			// the name may contain spaces? No: RelString forms like (*T).M have none.
			name = fields[0]
			rest = fields[1:]
			u := &Unit{Pkg: pkgPath, Func: name, Loops: map[int]*LoopSpec{}, Opts: map[string]bool{}, File: path, Line: r.line}
			for i := 0; i < len(rest); i++ {
				switch rest[i] {
				case "props":
					if i+1 < len(rest) {
						for _, p := range strings.Split(rest[i+1], ",") {
							if p != "" {
								u.Props = append(u.Props, p)
							}
						}
						i++
					}
				case "trusted":
					u.Trusted = true
					c.Scan = append(c.Scan, fmt.Sprintf("%s:%d: trusted contract for %s", filepath.Base(path), r.line, name))
				case "pure":
					u.Pure = true
				default:
					u.Opts[rest[i]] = true
				}
			}
			key := unitKey(pkgPath, name)
			if ex, dup := c.Units[key]; dup {
				if !u.Opts["extend"] {
					return fmt.Errorf("%s:%d: duplicate unit %s", path, r.line, key)
				}
				// `func NAME extend [props ...]`: more clauses for a unit declared in an earlier file (files load in name
				// order, so extension files are named zz_contracts_z<topic>_verif.go); clauses added here must be labelled
				for _, p := range u.Props {
					if !containsStr(ex.Props, p) {
						ex.Props = append(ex.Props, p)
					}
				}
				for o := range u.Opts {
					if o != "extend" {
						ex.Opts[o] = true
					}
				}
				cur = ex
				curLoop = nil
				extending = true
				continue
			} else if u.Opts["extend"] {
				return fmt.Errorf("%s:%d: extend of unknown unit %s (extension files must sort after the file that declares the unit: name them zz_contracts_z<topic>_verif.go)", path, r.line, key)
			}
			c.Units[key] = u
			cur = u
			curLoop = nil
			extending = false
		case "refines":
			// refines PKG::Iface by *T state g1,g2 props C18,C02 [except M1,M2]
			fields := strings.Fields(r.text)
			rs := &RefineSpec{Pkg: pkgPath, Except: map[string]bool{}, Abstr: map[string]Expr{}, AbstrParams: map[string][]string{}, File: path, Line: r.line}
			if len(fields) < 3 || fields[1] != "by" || !strings.Contains(fields[0], "::") {
				return fmt.Errorf("%s:%d: refines PKG::Iface by RecvType [state g,...] [props C..] [except M,...]", path, r.line)
			}
			i := strings.LastIndex(fields[0], "::")
			rs.IfacePkg, rs.Iface, rs.Recv = fields[0][:i], fields[0][i+2:], fields[2]
			for j := 3; j+1 < len(fields); j += 2 {
				switch fields[j] {
				case "state":
					rs.State = strings.Split(fields[j+1], ",")
				case "props":
					rs.Props = strings.Split(fields[j+1], ",")
				case "except":
					for _, m := range strings.Split(fields[j+1], ",") {
						rs.Except[m] = true
					}
				default:
					return fmt.Errorf("%s:%d: refines: unknown option %s", path, r.line, fields[j])
				}
			}
			c.Refines = append(c.Refines, rs)
			cur = nil
			curLoop = nil
		case "abstr":
			if len(c.Refines) == 0 {
				return fmt.Errorf("%s:%d: abstr outside refines", path, r.line)
			}
			i := strings.Index(r.text, ":=")
			if i < 0 {
				return fmt.Errorf("%s:%d: abstr NAME := EXPR", path, r.line)
			}
			e, err := ParseExpr(strings.TrimSpace(r.text[i+2:]))
			if err != nil {
				return fmt.Errorf("%s:%d: %v", path, r.line, err)
			}
			nm := strings.TrimSpace(r.text[:i])
			rsp := c.Refines[len(c.Refines)-1]
			if j := strings.Index(nm, "("); j > 0 && strings.HasSuffix(nm, ")") {
				// abstr NAME(p1, p2) := EXPR: the abstraction function takes (state, recv, p1, p2)
				for _, p := range strings.Split(nm[j+1:len(nm)-1], ",") {
					rsp.AbstrParams[nm[:j]] = append(rsp.AbstrParams[nm[:j]], strings.TrimSpace(p))
				}
				nm = nm[:j]
			}
			rsp.Abstr[nm] = e
		case "end":
			cur = nil
			curLoop = nil
		case "opts":
			if cur == nil {
				return fmt.Errorf("%s:%d: opts outside func", path, r.line)
			}
			for _, o := range strings.Fields(r.text) {
				cur.Opts[o] = true
			}
		case "pure":
			if cur != nil {
				cur.Pure = true
			}
		case "requires", "ensures":
			if cur == nil {
				return fmt.Errorf("%s:%d: %s outside func", path, r.line, r.kw)
			}
			cl, err := mkClause(r)
			if err != nil {
				return err
			}
			if r.kw == "requires" {
				cur.Requires = append(cur.Requires, cl)
			} else {
				cur.Ensures = append(cur.Ensures, cl)
			}
		case "excludes":
			if cur == nil {
				return fmt.Errorf("%s:%d: excludes outside func", path, r.line)
			}
			for _, t := range splitTop(r.text) {
				if t = strings.TrimSpace(t); t != "" {
					cur.Excludes = append(cur.Excludes, t)
				}
			}
		case "lemma":
			if cur == nil {
				return fmt.Errorf("%s:%d: lemma outside func", path, r.line)
			}
			cl, err := mkClause(r)
			if err != nil {
				return err
			}
			cur.Lemmas = append(cur.Lemmas, cl)
		case "guards":
			if cur == nil {
				return fmt.Errorf("%s:%d: guards outside func", path, r.line)
			}
			i := strings.Index(r.text, " by ")
			tf := strings.TrimSpace(r.text)
			if i < 0 || !strings.Contains(tf[:i], ".") {
				return fmt.Errorf("%s:%d: guards T.f by EXPR", path, r.line)
			}
			cl, err := mkClause(rawClause{kw: r.kw, text: strings.TrimSpace(r.text[i+4:]), line: r.line})
			if err != nil {
				return err
			}
			tfs := strings.TrimSpace(r.text[:i])
			d := strings.LastIndex(tfs, ".")
			cur.Guards = append(cur.Guards, GuardSpec{Type: tfs[:d], Field: tfs[d+1:], C: cl})
		case "preserves":
			if cur == nil {
				return fmt.Errorf("%s:%d: preserves outside func", path, r.line)
			}
			for _, t := range splitTop(r.text) {
				if t = strings.TrimSpace(t); t != "" {
					cur.Preserves = append(cur.Preserves, t)
				}
			}
		case "memoize":
			if cur == nil {
				return fmt.Errorf("%s:%d: memoize outside func", path, r.line)
			}
			cur.MemoClass = strings.TrimSpace(r.text)
		case "pins", "visits":
			if cur == nil {
				return fmt.Errorf("%s:%d: %s outside func", path, r.line, r.kw)
			}
			text := r.text
			es := EnumSpec{Except: map[string]bool{}}
			if i := strings.Index(text, " except "); i >= 0 {
				for _, f := range strings.Split(text[i+8:], ",") {
					es.Except[strings.TrimSpace(f)] = true
				}
				text = strings.TrimSpace(text[:i])
			}
			fields := strings.Fields(text)
			es.Obj = fields[0]
			e, err := ParseExpr(es.Obj)
			if err != nil {
				return fmt.Errorf("%s:%d: %v", path, r.line, err)
			}
			es.E = e
			if r.kw == "visits" {
				if len(fields) != 3 {
					return fmt.Errorf("%s:%d: visits OBJ FUNC ARGINDEX [except ...]", path, r.line)
				}
				es.Func = fields[1]
				fmt.Sscanf(fields[2], "%d", &es.Arg)
				cur.Visits = append(cur.Visits, es)
			} else {
				cur.Pins = append(cur.Pins, es)
			}
		case "modifies":
			if cur == nil {
				return fmt.Errorf("%s:%d: modifies outside func", path, r.line)
			}
			cur.HasMod = true
			for _, it := range splitTop(r.text) {
				it = strings.TrimSpace(it)
				if it == "inferred" {
					cur.ModInferred = true
					continue
				}
				if it != "" && it != "nothing" {
					cur.Modifies = append(cur.Modifies, it)
				}
			}
		case "loop":
			if cur == nil {
				return fmt.Errorf("%s:%d: loop outside func", path, r.line)
			}
			fields := strings.Fields(r.text)
			var ord int
			if _, err := fmt.Sscanf(fields[0], "%d", &ord); err != nil {
				return fmt.Errorf("%s:%d: loop ordinal: %v", path, r.line, err)
			}
			ls := &LoopSpec{Ordinal: ord}
			if ex := cur.Loops[ord]; ex != nil && extending {
				ls = ex
			}
			for i := 1; i < len(fields); i++ {
				if fields[i] == "vars" && i+1 < len(fields) {
					ls.Vars = strings.Split(fields[i+1], ",")
					i++
				}
			}
			cur.Loops[ord] = ls
			curLoop = ls
		case "after", "returns":
			if curLoop == nil {
				return fmt.Errorf("%s:%d: %s outside loop", path, r.line, r.kw)
			}
			cl, err := mkClause(r)
			if err != nil {
				return err
			}
			if r.kw == "returns" {
				curLoop.Returns = append(curLoop.Returns, cl)
			} else {
				curLoop.Afters = append(curLoop.Afters, cl)
			}
		case "step", "exits":
			if curLoop == nil {
				return fmt.Errorf("%s:%d: %s outside loop", path, r.line, r.kw)
			}
			cl, err := mkClause(r)
			if err != nil {
				return err
			}
			if r.kw == "step" {
				curLoop.Steps = append(curLoop.Steps, cl)
			} else {
				curLoop.Exits = append(curLoop.Exits, cl)
			}
		case "at":
			// at "source text" requires [label:] EXPR
			if cur == nil {
				return fmt.Errorf("%s:%d: at outside func", path, r.line)
			}
			t := strings.TrimSpace(r.text)
			callOnly := false
			mapOnly := false
			if strings.HasPrefix(t, "call ") {
				callOnly = true
				t = strings.TrimSpace(t[5:])
			} else if strings.HasPrefix(t, "update ") {
				mapOnly = true
				t = strings.TrimSpace(t[7:])
			}
			if !strings.HasPrefix(t, "\"") {
				return fmt.Errorf("%s:%d: at \"text\" requires EXPR", path, r.line)
			}
			end := strings.Index(t[1:], "\"")
			if end < 0 {
				return fmt.Errorf("%s:%d: unterminated text", path, r.line)
			}
			txt := t[1 : 1+end]
			rest := strings.TrimSpace(t[2+end:])
			if !strings.HasPrefix(rest, "requires ") {
				return fmt.Errorf("%s:%d: at \"text\" requires EXPR", path, r.line)
			}
			r2 := r
			r2.text = strings.TrimSpace(rest[len("requires "):])
			cl, err := mkClause(r2)
			if err != nil {
				return err
			}
			cur.Ats = append(cur.Ats, AtSpec{Text: txt, C: cl, CallOnly: callOnly, MapOnly: mapOnly})
			curLoop = nil
		case "invariant":
			if curLoop == nil {
				return fmt.Errorf("%s:%d: invariant outside loop", path, r.line)
			}
			cl, err := mkClause(r)
			if err != nil {
				return err
			}
			curLoop.Invariants = append(curLoop.Invariants, cl)
		case "decreases":
			if curLoop == nil {
				return fmt.Errorf("%s:%d: decreases outside loop", path, r.line)
			}
			cl, err := mkClause(r)
			if err != nil {
				return err
			}
			curLoop.Decreases = &cl
		case "spec", "define":
			sf, err := parseSpecDecl(r.text, r.kw == "define")
			if err != nil {
				return fmt.Errorf("%s:%d: %v", path, r.line, err)
			}
			sf.Pkg = pkgPath
			if _, dup := c.Specs[sf.Name]; dup {
				return fmt.Errorf("%s:%d: duplicate spec function %s", path, r.line, sf.Name)
			}
			c.Specs[sf.Name] = sf
		case "axiom":
			cl, err := mkClause(r)
			if err != nil {
				return err
			}
			c.Axioms = append(c.Axioms, &Axiom{Name: cl.Name, Text: cl.Text, E: cl.E, Pkg: pkgPath})
		case "ghost":
			// ghost var NAME TYPE
			fields := strings.Fields(r.text)
			if len(fields) == 4 && fields[0] == "field" {
				owner := fields[1]
				if !strings.Contains(owner, ".") {
					owner = pkgPath + "." + owner
				}
				if c.GhostFields[owner] == nil {
					c.GhostFields[owner] = map[string]*GhostField{}
				}
				c.GhostFields[owner][fields[2]] = &GhostField{Owner: owner, Name: fields[2], Type: fields[3], Pkg: pkgPath}
				continue
			}
			if len(fields) != 3 || fields[0] != "var" {
				return fmt.Errorf("%s:%d: ghost var NAME TYPE | ghost field OWNER NAME TYPE", path, r.line)
			}
			c.Ghosts[fields[1]] = &GhostVar{Name: fields[1], Type: fields[2], Pkg: pkgPath}
		}
	}
	return nil
}

func unitKey(pkg, fn string) string {
	if pkg == "" {
		return fn
	}
	return pkg + "::" + fn
}

func isPlainIdent(s string) bool {
	if s == "" {
		return false
	}
	for i := 0; i < len(s); i++ {
		if !isIdentChar(s[i]) || s[i] == '$' {
			return false
		}
	}
	return !(s[0] >= '0' && s[0] <= '9')
}

// splitTop splits on commas not nested in brackets/parens.
func splitTop(s string) []string {
	var out []string
	depth := 0
	start := 0
	for i := 0; i < len(s); i++ {
		switch s[i] {
		case '(', '[':
			depth++
		case ')', ']':
			depth--
		case ',':
			if depth == 0 {
				out = append(out, s[start:i])
				start = i + 1
			}
		}
	}
	out = append(out, s[start:])
	return out
}

// parseSpecDecl parses  name(a int, b string) bool [:= expr]
func parseSpecDecl(s string, hasBody bool) (*SpecFunc, error) {
	body := ""
	if hasBody {
		i := strings.Index(s, ":=")
		if i < 0 {
			return nil, fmt.Errorf("define needs ':='")
		}
		body = strings.TrimSpace(s[i+2:])
		s = strings.TrimSpace(s[:i])
	}
	lp := strings.Index(s, "(")
	rp := strings.LastIndex(s, ")")
	if lp < 0 || rp < lp {
		return nil, fmt.Errorf("bad spec declaration %q", s)
	}
	sf := &SpecFunc{Name: strings.TrimSpace(s[:lp]), Result: strings.TrimSpace(s[rp+1:])}
	for _, p := range splitTop(s[lp+1 : rp]) {
		p = strings.TrimSpace(p)
		if p == "" {
			continue
		}
		f := strings.Fields(p)
		if len(f) != 2 {
			return nil, fmt.Errorf("bad parameter %q", p)
		}
		sf.Params = append(sf.Params, Binder{f[0], f[1]})
	}
	if sf.Result == "" {
		return nil, fmt.Errorf("spec %s: missing result type", sf.Name)
	}
	if hasBody {
		e, err := ParseExpr(body)
		if err != nil {
			return nil, err
		}
		sf.Body = e
		sf.BodyTxt = body
	}
	return sf, nil
}

func (c *Contracts) unitsForProp(prop string) []*Unit {
	var us []*Unit
	for _, u := range c.Units {
		if u.Trusted {
			continue
		}
		for _, p := range u.Props {
			if p == prop {
				us = append(us, u)
				break
			}
		}
	}
	sort.Slice(us, func(i, j int) bool { return unitKey(us[i].Pkg, us[i].Func) < unitKey(us[j].Pkg, us[j].Func) })
	return us
}

func containsStr(l []string, x string) bool {
	for _, y := range l {
		if y == x {
			return true
		}
	}
	return false
}
