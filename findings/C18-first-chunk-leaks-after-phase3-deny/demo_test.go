package http

import (
	"net/http"
	"net/http/httptest"
	"testing"

	"github.com/corazawaf/coraza/v3"
)

// C18: once a phase-3 rule denies the response, nothing of the handler's body may reach the client.
func TestC18FirstChunkAfterPhase3Deny(t *testing.T) {
	waf, err := coraza.NewWAF(coraza.NewWAFConfig().WithDirectives(`
SecRuleEngine On
SecRule RESPONSE_STATUS "200" "id:1,phase:3,deny,status:403"
`))
	if err != nil {
		t.Fatal(err)
	}
	h := WrapHandler(waf, http.HandlerFunc(func(w http.ResponseWriter, r *http.Request) {
		w.Write([]byte("SECRET-1")) // no explicit WriteHeader: the implicit 200 runs phase 3
		w.Write([]byte("SECRET-2"))
	}))
	rec := httptest.NewRecorder()
	h.ServeHTTP(rec, httptest.NewRequest("GET", "/", nil))
	if rec.Code != 403 {
		t.Fatalf("status %d, want 403", rec.Code)
	}
	if rec.Body.Len() != 0 {
		t.Fatalf("denied response carries handler bytes: %q", rec.Body.String())
	}
}
