#!/bin/bash
# usage: mkcanary.sh <prop> <name> <file> <python-replace-old> <python-replace-new>
set -e
prop=$1; name=$2; file=$3; old=$4; new=$5
tmp=$(mktemp -d /tmp/mkcanary.XXXX)
(cd /repo && git archive HEAD) | tar -x -C $tmp
cd $tmp && git init -q . && git add -A >/dev/null && git -c user.email=a@b -c user.name=x commit -qm base
python3 - "$file" "$old" "$new" <<'PY'
import sys
p,old,new=sys.argv[1:4]
s=open(p).read()
assert s.count(old)>=1, "pattern not found: "+old
n=int(__import__("os").environ.get("OCC","1")); parts=s.split(old); assert len(parts)>n; s=old.join(parts[:n])+new+old.join(parts[n:])
open(p,'w').write(s)
PY
mkdir -p /verif/canaries/$prop
git diff > /verif/canaries/$prop/$name.patch
cd / && rm -rf $tmp
echo "wrote canaries/$prop/$name.patch"
