package main

import (
	"fmt"
	"go/constant"
	"go/token"
	"go/types"
	"math/big"
	"strings"

	"golang.org/x/tools/go/ssa"
)

// ---------- obligations ----------

func (vc *FnVC) posOf(in ssa.Instruction) string {
	if in == nil {
		return ""
	}
	p := in.Pos()
	if !p.IsValid() {
		return ""
	}
	pp := vc.G.fset.Position(p)
	return fmt.Sprintf("%s:%d", pp.Filename, pp.Line)
}

// srcText returns the normalised source text at an instruction (used in stable obligation names).
func (vc *FnVC) srcText(v ssa.Value, in ssa.Instruction) string {
	return vc.G.sourceText(vc.fn, v, in)
}

func (vc *FnVC) oblige(st *State, class, what, goal, text string) *Obligation {
	if goal == "true" {
		// still count trivially true obligations? they are discharged syntactically; skip to keep counts honest
		return nil
	}
	base := fmt.Sprintf("%s/%s/%s", vc.oblKey(), class, what)
	vc.oblNames[base]++
	name := fmt.Sprintf("%s#%d", base, vc.oblNames[base])
	o := &Obligation{Name: name, Class: class, Unit: vc.unit, Fn: vc.oblKey(), Pos: vc.posOf(vc.curInstr),
		Text: text, PC: st.pc, Goal: goal, DefsEnd: len(vc.defs), vc: vc}
	vc.obls = append(vc.obls, o)
	return o
}

// safety obligations are generated unless the unit opts out.
func (vc *FnVC) safety(st *State, class, what, goal string) {
	if vc.unit != nil && vc.unit.Opts["nosafety"] {
		vc.assume(st, goal)
		return
	}
	vc.oblige(st, class, what, goal, class+" safety: "+what)
	// after the check the program continues only if it held
	vc.assume(st, goal)
}

// ---------- values ----------

func (vc *FnVC) val(st *State, v ssa.Value) *Val {
	if x, ok := vc.vals[v]; ok {
		return x
	}
	switch c := v.(type) {
	case *ssa.Const:
		return vc.constVal(c)
	case *ssa.Global:
		return vc.globalAddr(c)
	case *ssa.Function:
		n := "fn!" + sanitize(c.String())
		vc.declare(n, "Int")
		vc.fact(sx(">", n, "0"))
		return &Val{T: c.Type(), S: n}
	case *ssa.Builtin:
		return &Val{T: c.Type(), S: "0"}
	case *ssa.FreeVar:
		fv := vc.freshVal(st, c.Type(), "fv."+c.Name())
		if _, isP := c.Type().Underlying().(*types.Pointer); isP {
			vc.assume(st, sx(">", fv.S, "0"))
		}
		vc.vals[v] = fv
		return fv
	}
	// value not yet computed (e.g. defined in a block processed later because of havoc): fresh
	vc.note("value %s used before definition; treated as unconstrained", v.Name())
	fv := vc.freshVal(st, v.Type(), "undef."+v.Name())
	vc.vals[v] = fv
	return fv
}

func (vc *FnVC) constVal(c *ssa.Const) *Val {
	t := c.Type()
	if c.Value == nil {
		return vc.zeroVal(t)
	}
	switch c.Value.Kind() {
	case constant.Bool:
		if constant.BoolVal(c.Value) {
			return &Val{T: t, S: "true"}
		}
		return &Val{T: t, S: "false"}
	case constant.Int:
		if isFloat(t) {
			f, _ := constant.Float64Val(c.Value)
			return &Val{T: t, S: realLit(f)}
		}
		bi, ok := new(big.Int).SetString(c.Value.ExactString(), 10)
		if !ok {
			return &Val{T: t, S: "0"}
		}
		return &Val{T: t, S: bigLit(bi)}
	case constant.String:
		return &Val{T: t, S: vc.strConstTerm(constant.StringVal(c.Value))}
	case constant.Float:
		f, _ := constant.Float64Val(c.Value)
		return &Val{T: t, S: realLit(f)}
	}
	return vc.zeroVal(t)
}

func bigLit(b *big.Int) string {
	if b.Sign() < 0 {
		return "(- " + new(big.Int).Neg(b).String() + ")"
	}
	return b.String()
}

func realLit(f float64) string {
	r := new(big.Rat)
	r.SetFloat64(f)
	s := fmt.Sprintf("(/ %s.0 %s.0)", new(big.Int).Abs(r.Num()).String(), r.Denom().String())
	if r.Sign() < 0 {
		return "(- " + s + ")"
	}
	return s
}

func (vc *FnVC) globalAddr(g *ssa.Global) *Val {
	elem := g.Type().(*types.Pointer).Elem()
	name := "G!" + g.Pkg.Pkg.Path() + "." + g.Name()
	if isStruct(elem) {
		n := "gref!" + sanitize(g.Pkg.Pkg.Path()+"."+g.Name())
		if !vc.declSet[n] {
			vc.declare(n, "Int")
			vc.fact(smtAnd(sx("<", n, "0"), sx("=", sx("ref.root", n), n)))
		}
		return &Val{T: g.Type(), S: n}
	}
	s := sortOf(elem)
	if s == "" {
		s = "Int"
	}
	vc.key(name, s, "global").GoType = elem.String()
	a := &Addr{Kind: "global", Key: name, Elem: elem}
	if c := vc.G.constGlobals[g]; c != nil {
		a.Const = vc.constVal(c).S
	}
	if vc.G.nonNilGlobals[g] && s == "Iface" {
		// init-only error value: the same non-nil interface throughout
		cn := "gerr!" + sanitize(g.Pkg.Pkg.Path()+"."+g.Name())
		if !vc.declSet[cn] {
			vc.declare(cn, "Iface")
			vc.fact(smtAnd(sx(">", sx("i.tag", cn), "0")))
		}
		a.Const = cn
	}
	return &Val{T: g.Type(), S: "1", Addr: a}
}

// ---------- loads and stores ----------

func (vc *FnVC) addrOf(st *State, p *Val) *Addr {
	if p.Addr != nil {
		if p.Addr.Kind == "structarr" {
			return nil
		}
		return p.Addr
	}
	pt, ok := p.T.Underlying().(*types.Pointer)
	if !ok {
		return nil
	}
	k := vc.cellKey(pt.Elem())
	if k == nil {
		return nil
	}
	return &Addr{Kind: "cell", Key: k.Name, Obj: p.S, Elem: pt.Elem()}
}

func (vc *FnVC) loadAddr(st *State, a *Addr) string {
	switch a.Kind {
	case "field", "cell":
		return sx("select", vc.get(st, a.Key), a.Obj)
	case "elem":
		return sx("select", sx("select", vc.get(st, a.Key), a.Base), a.Idx)
	case "local", "global":
		if a.Const != "" {
			return a.Const
		}
		return vc.get(st, a.Key)
	case "arrelem":
		return sx("select", vc.loadAddr(st, a.Parent), a.Idx)
	}
	panic("loadAddr kind " + a.Kind)
}

// trackWrite records (for `pins` clauses) that field key was assigned at object obj.
func (vc *FnVC) trackWrite(st *State, key, obj string) {
	if vc.unit == nil || len(vc.unit.Pins) == 0 {
		return
	}
	wk := "W!" + key
	if vc.keys[wk] == nil {
		vc.key(wk, "(Array Int Bool)", "ghost")
		vc.fact(sx("=", entrySym(wk), "((as const (Array Int Bool)) false)"))
	}
	vc.set(st, wk, sx("store", vc.get(st, wk), obj, "true"))
}

func (vc *FnVC) storeAddr(st *State, a *Addr, v string) {
	switch a.Kind {
	case "field", "cell":
		if a.Kind == "field" {
			vc.trackWrite(st, a.Key, a.Obj)
		}
		vc.set(st, a.Key, sx("store", vc.get(st, a.Key), a.Obj, v))
	case "elem":
		m := vc.get(st, a.Key)
		vc.set(st, a.Key, sx("store", m, a.Base, sx("store", sx("select", m, a.Base), a.Idx, v)))
	case "local", "global":
		vc.set(st, a.Key, v)
	case "arrelem":
		vc.storeAddr(st, a.Parent, sx("store", vc.loadAddr(st, a.Parent), a.Idx, v))
	default:
		panic("storeAddr kind " + a.Kind)
	}
}

// loadStruct reads the whole struct object at ref.
func (vc *FnVC) loadStruct(st *State, t types.Type, ref string) *Val {
	u := t.Underlying().(*types.Struct)
	v := &Val{T: t, Fields: map[string]*Val{}}
	for name, gf := range vc.G.C.GhostFields[typeName(t)] {
		if k, gt, err := vc.ghostFieldKey(vc.envAt(st, nil), gf); err == nil {
			v.Fields["$"+name] = &Val{T: gt, S: sx("select", vc.get(st, k), ref)}
		}
	}
	for i := 0; i < u.NumFields(); i++ {
		f := u.Field(i)
		v.Order = append(v.Order, f.Name())
		if isStruct(f.Type()) {
			v.Fields[f.Name()] = vc.loadStruct(st, f.Type(), vc.embRef(t, f.Name(), ref))
			continue
		}
		k := vc.fieldKey(t, f)
		term := sx("select", vc.get(st, k.Name), ref)
		v.Fields[f.Name()] = &Val{T: f.Type(), S: vc.define("ld."+f.Name(), sortOf(f.Type()), term)}
		vc.assume(st, vc.typeFacts(st, f.Type(), v.Fields[f.Name()].S))
	}
	return v
}

func (vc *FnVC) storeStruct(st *State, t types.Type, ref string, v *Val) {
	for name, gf := range vc.G.C.GhostFields[typeName(t)] {
		k, gt, err := vc.ghostFieldKey(vc.envAt(st, nil), gf)
		if err != nil {
			continue
		}
		gv := zeroTerm(sortOf(gt))
		if f := v.Fields["$"+name]; f != nil {
			gv = f.S
		}
		vc.set(st, k, sx("store", vc.get(st, k), ref, gv))
	}
	u := t.Underlying().(*types.Struct)
	for i := 0; i < u.NumFields(); i++ {
		f := u.Field(i)
		fv := v.Fields[f.Name()]
		if fv == nil {
			fv = vc.zeroVal(f.Type())
		}
		if isStruct(f.Type()) {
			vc.storeStruct(st, f.Type(), vc.embRef(t, f.Name(), ref), fv)
			continue
		}
		k := vc.fieldKey(t, f)
		vc.trackWrite(st, k.Name, ref)
		vc.set(st, k.Name, sx("store", vc.get(st, k.Name), ref, fv.S))
	}
}

func (vc *FnVC) load(st *State, p *Val) *Val {
	pt := p.T.Underlying().(*types.Pointer)
	elem := pt.Elem()
	if isStruct(elem) {
		return vc.loadStruct(st, elem, p.S)
	}
	a := vc.addrOf(st, p)
	if a == nil {
		vc.note("load through unsupported pointer type %s", p.T)
		return vc.freshVal(st, elem, "ld")
	}
	term := vc.define("ld", sortOf(elem), vc.loadAddr(st, a))
	vc.assume(st, vc.typeFacts(st, elem, term))
	return &Val{T: elem, S: term}
}

func (vc *FnVC) store(st *State, p *Val, v *Val) {
	pt := p.T.Underlying().(*types.Pointer)
	elem := pt.Elem()
	if isStruct(elem) {
		vc.storeStruct(st, elem, p.S, v)
		return
	}
	a := vc.addrOf(st, p)
	if a == nil {
		vc.note("store through unsupported pointer type %s", p.T)
		return
	}
	vc.storeAddr(st, a, v.S)
}

// ---------- arithmetic ----------

func pow2(n int) string { return new(big.Int).Lsh(big.NewInt(1), uint(n)).String() }

func wrapInt(t types.Type, term string) string {
	b, ok := t.Underlying().(*types.Basic)
	if !ok {
		return term
	}
	bits := intBits(t)
	if b.Info()&types.IsUnsigned != 0 {
		return sx("mod", term, pow2(bits))
	}
	if bits < 64 {
		return sx("-", sx("mod", sx("+", term, pow2(bits-1)), pow2(bits)), pow2(bits-1))
	}
	return term // int/int64: mathematical (stated assumption)
}

func constIntOf(v ssa.Value) (int64, bool) {
	c, ok := v.(*ssa.Const)
	if !ok || c.Value == nil || c.Value.Kind() != constant.Int {
		return 0, false
	}
	i, ok := constant.Int64Val(c.Value)
	return i, ok
}

func bitOf(x string, b int) string { return sx("mod", sx("div", x, pow2(b)), "2") }

func (vc *FnVC) bitop(op token.Token, t types.Type, x, y string, xc, yc ssa.Value) string {
	bits := intBits(t)
	// constant mask cases
	if op == token.AND {
		if c, ok := constIntOf(yc); ok && c >= 0 {
			return andConst(x, c, bits)
		}
		if c, ok := constIntOf(xc); ok && c >= 0 {
			return andConst(y, c, bits)
		}
	}
	if op == token.AND_NOT {
		if c, ok := constIntOf(yc); ok && c >= 0 {
			mask := (int64(1)<<uint(min(bits, 62)) - 1) &^ c
			if bits <= 32 || isUnsignedOrNonNeg(t) {
				return andConst(x, mask, bits)
			}
		}
	}
	if bits <= 16 {
		var terms []string
		for b := 0; b < bits; b++ {
			bx, by := bitOf(x, b), bitOf(y, b)
			var r string
			switch op {
			case token.AND:
				r = sx("*", bx, by)
			case token.OR:
				r = sx("-", sx("+", bx, by), sx("*", bx, by))
			case token.XOR:
				r = sx("mod", sx("+", bx, by), "2")
			case token.AND_NOT:
				r = sx("*", bx, sx("-", "1", by))
			}
			terms = append(terms, sx("*", pow2(b), r))
		}
		return sx("+", terms...)
	}
	fn := "bit." + map[token.Token]string{token.AND: "and", token.OR: "or", token.XOR: "xor", token.AND_NOT: "andnot"}[op]
	vc.declareFun(fn, []string{"Int", "Int"}, "Int")
	return sx(fn, x, y)
}

func isUnsignedOrNonNeg(t types.Type) bool { return isUnsigned(t) }

func andConst(x string, c int64, bits int) string {
	// contiguous low mask
	if c&(c+1) == 0 {
		return sx("mod", x, fmt.Sprint(c+1))
	}
	var terms []string
	for b := 0; b < 63; b++ {
		if c&(1<<uint(b)) != 0 {
			terms = append(terms, sx("*", pow2(b), bitOf(x, b)))
		}
	}
	if len(terms) == 1 {
		return terms[0]
	}
	return sx("+", terms...)
}

func (vc *FnVC) binop(st *State, in *ssa.BinOp) *Val {
	x, y := vc.val(st, in.X), vc.val(st, in.Y)
	t := in.X.Type()
	rt := in.Type()
	switch in.Op {
	case token.EQL, token.NEQ:
		eq := vc.equal(st, t, x, y)
		if in.Op == token.NEQ {
			eq = smtNot(eq)
		}
		return &Val{T: rt, S: eq}
	case token.LSS, token.LEQ, token.GTR, token.GEQ:
		op := map[token.Token]string{token.LSS: "<", token.LEQ: "<=", token.GTR: ">", token.GEQ: ">="}[in.Op]
		if isString(t) {
			vc.declareFun("gs.lt", []string{"Str", "Str"}, "Bool")
			switch in.Op {
			case token.LSS:
				return &Val{T: rt, S: sx("gs.lt", x.S, y.S)}
			case token.GTR:
				return &Val{T: rt, S: sx("gs.lt", y.S, x.S)}
			case token.LEQ:
				return &Val{T: rt, S: smtNot(sx("gs.lt", y.S, x.S))}
			default:
				return &Val{T: rt, S: smtNot(sx("gs.lt", x.S, y.S))}
			}
		}
		return &Val{T: rt, S: sx(op, x.S, y.S)}
	}
	if isString(t) && in.Op == token.ADD {
		vc.usedCat = true
		r := vc.define("cat", "Str", sx("gs.cat", x.S, y.S))
		return &Val{T: rt, S: r}
	}
	if isBool(t) {
		switch in.Op {
		case token.AND, token.LAND:
			return &Val{T: rt, S: smtAnd(x.S, y.S)}
		case token.OR, token.LOR:
			return &Val{T: rt, S: smtOr(x.S, y.S)}
		case token.XOR:
			return &Val{T: rt, S: sx("xor", x.S, y.S)}
		}
	}
	if isFloat(t) {
		op := map[token.Token]string{token.ADD: "+", token.SUB: "-", token.MUL: "*", token.QUO: "/"}[in.Op]
		if op == "" {
			return vc.freshVal(st, rt, "fop")
		}
		return &Val{T: rt, S: sx(op, x.S, y.S)}
	}
	if !isInteger(t) {
		vc.note("binop %s on %s havocked", in.Op, t)
		return vc.freshVal(st, rt, "binop")
	}
	var r string
	switch in.Op {
	case token.ADD:
		r = wrapInt(rt, sx("+", x.S, y.S))
		vc.arithCheck(st, rt, sx("+", x.S, y.S), in)
	case token.SUB:
		r = wrapInt(rt, sx("-", x.S, y.S))
		vc.arithCheck(st, rt, sx("-", x.S, y.S), in)
	case token.MUL:
		r = wrapInt(rt, sx("*", x.S, y.S))
		vc.arithCheck(st, rt, sx("*", x.S, y.S), in)
	case token.QUO:
		vc.safety(st, "div", vc.srcText(in, in), smtNot(sx("=", y.S, "0")))
		r = wrapInt(rt, goDiv(x.S, y.S, isUnsigned(t)))
	case token.REM:
		vc.safety(st, "div", vc.srcText(in, in), smtNot(sx("=", y.S, "0")))
		r = sx("-", x.S, sx("*", y.S, goDiv(x.S, y.S, isUnsigned(t))))
	case token.AND, token.OR, token.XOR, token.AND_NOT:
		r = vc.bitop(in.Op, t, x.S, y.S, in.X, in.Y)
		if strings.HasPrefix(r, "(bit.") {
			// uninterpreted: give it its range
			r = vc.define("bit", "Int", r)
			vc.assume(st, vc.typeFacts(st, rt, r))
		}
	case token.SHL:
		if c, ok := constIntOf(in.Y); ok && c >= 0 && c < 64 {
			r = wrapInt(rt, sx("*", x.S, pow2(int(c))))
		} else {
			vc.declareFun("bit.shl", []string{"Int", "Int"}, "Int")
			r = vc.define("shl", "Int", sx("bit.shl", x.S, y.S))
			vc.assume(st, vc.typeFacts(st, rt, r))
		}
	case token.SHR:
		if c, ok := constIntOf(in.Y); ok && c >= 0 && c < 64 {
			r = sx("div", x.S, pow2(int(c)))
		} else {
			vc.declareFun("bit.shr", []string{"Int", "Int"}, "Int")
			r = vc.define("shr", "Int", sx("bit.shr", x.S, y.S))
			vc.assume(st, vc.typeFacts(st, rt, r))
		}
	default:
		vc.note("binop %s havocked", in.Op)
		return vc.freshVal(st, rt, "binop")
	}
	return &Val{T: rt, S: vc.define(in.Name(), "Int", r)}
}

func (vc *FnVC) arithCheck(st *State, t types.Type, mathTerm string, in ssa.Instruction) {
	if vc.unit == nil || !vc.unit.Opts["arith"] {
		return
	}
	if isUnsigned(t) || intBits(t) < 64 {
		return
	}
	lo, hi, _ := intRange(t)
	vc.oblige(st, "arith", vc.srcText(nil, in), smtAnd(sx("<=", lo, mathTerm), sx("<=", mathTerm, hi)), "no signed overflow")
}

func goDiv(x, y string, unsigned bool) string {
	if unsigned {
		return sx("div", x, y)
	}
	// truncated division
	return smtIte(sx(">=", x, "0"), sx("div", x, y), sx("-", sx("div", sx("-", x), y)))
}

func (vc *FnVC) equal(st *State, t types.Type, x, y *Val) string {
	if x.Fields != nil && y.Fields != nil {
		var cs []string
		for _, k := range x.Order {
			if x.Fields[k] == nil || y.Fields[k] == nil {
				continue
			}
			cs = append(cs, vc.equal(st, x.Fields[k].T, x.Fields[k], y.Fields[k]))
		}
		return smtAnd(cs...)
	}
	if isString(t) {
		return vc.strEq(x.S, y.S)
	}
	if _, ok := t.Underlying().(*types.Slice); ok {
		// only comparison with nil is legal
		if y.S == zeroTerm("Slice") {
			return sx("=", sx("s.base", x.S), "0")
		}
		if x.S == zeroTerm("Slice") {
			return sx("=", sx("s.base", y.S), "0")
		}
	}
	if _, ok := t.Underlying().(*types.Interface); ok {
		// comparing interface with concrete-typed nil const etc.
		return smtEq(x.S, y.S)
	}
	return smtEq(x.S, y.S)
}

// ---------- conversions ----------

func (vc *FnVC) convert(st *State, in *ssa.Convert) *Val {
	x := vc.val(st, in.X)
	from, to := in.X.Type(), in.Type()
	switch {
	case isInteger(from) && isInteger(to):
		lo, hi, _ := intRange(to)
		flo, fhi, _ := intRange(from)
		// if source range within target range no wrap needed
		if rangeWithin(flo, fhi, lo, hi) {
			return &Val{T: to, S: x.S}
		}
		b := to.Underlying().(*types.Basic)
		bits := intBits(to)
		if b.Info()&types.IsUnsigned != 0 {
			return &Val{T: to, S: vc.define("conv", "Int", sx("mod", x.S, pow2(bits)))}
		}
		return &Val{T: to, S: vc.define("conv", "Int", sx("-", sx("mod", sx("+", x.S, pow2(bits-1)), pow2(bits)), pow2(bits-1)))}
	case isString(from) && isByteSlice(to):
		return vc.stringToBytes(st, x, to)
	case isByteSlice(from) && isString(to):
		return vc.bytesToString(st, x, to)
	case isString(from) && isString(to):
		return &Val{T: to, S: x.S}
	case isInteger(from) && isString(to):
		vc.declareFun("gs.ofrune", []string{"Int"}, "Str")
		// string(r) of an ASCII code point is the one-byte string of that byte (other runes: uninterpreted)
		vc.usedCat = true
		vc.assume(st, smtImp(smtAnd(sx("<=", "0", x.S), sx("<", x.S, "128")), sx("=", sx("gs.ofrune", x.S), sx("gs.unit", x.S))))
		return &Val{T: to, S: sx("gs.ofrune", x.S)}
	case isInteger(from) && isFloat(to):
		return &Val{T: to, S: sx("to_real", x.S)}
	case isFloat(from) && isFloat(to):
		return &Val{T: to, S: x.S}
	}
	if _, ok := to.Underlying().(*types.Basic); ok && sortOf(from) == sortOf(to) {
		return &Val{T: to, S: x.S} // pointer <-> unsafe.Pointer
	}
	if sortOf(from) == sortOf(to) && sortOf(to) != "" {
		if _, isSl := to.Underlying().(*types.Slice); !isSl {
			return &Val{T: to, S: x.S}
		}
	}
	vc.note("conversion %s -> %s havocked", from, to)
	return vc.freshVal(st, to, "conv")
}

func rangeWithin(flo, fhi, lo, hi string) bool {
	p := func(s string) *big.Int {
		neg := strings.HasPrefix(s, "(- ")
		s = strings.TrimSuffix(strings.TrimPrefix(s, "(- "), ")")
		b, _ := new(big.Int).SetString(s, 10)
		if neg {
			b.Neg(b)
		}
		return b
	}
	return p(flo).Cmp(p(lo)) >= 0 && p(fhi).Cmp(p(hi)) <= 0
}

func isByteSlice(t types.Type) bool {
	s, ok := t.Underlying().(*types.Slice)
	if !ok {
		return false
	}
	b, ok := s.Elem().Underlying().(*types.Basic)
	return ok && (b.Kind() == types.Uint8 || b.Kind() == types.Int32)
}

func (vc *FnVC) stringToBytes(st *State, x *Val, to types.Type) *Val {
	elem := to.Underlying().(*types.Slice).Elem()
	if intBits(elem) != 8 {
		vc.note("[]rune(string) havocked")
		return vc.freshSlice(st, to, "runes")
	}
	base := vc.newRef(st, "bytes")
	k := vc.memKey(elem)
	arr := vc.freshName("bytes.arr")
	vc.declare(arr, "(Array Int Int)")
	vc.assume(st, fmt.Sprintf("(forall ((k Int)) (! (=> (and (<= 0 k) (< k (gs.len %s))) (= (select %s k) (gs.at %s k))) :pattern ((select %s k))))", x.S, arr, x.S, arr))
	vc.set(st, k.Name, sx("store", vc.get(st, k.Name), base, arr))
	ln := sx("gs.len", x.S)
	return &Val{T: to, S: vc.define("sl", "Slice", sx("mkslice", base, "0", ln, ln))}
}

func (vc *FnVC) freshSlice(st *State, t types.Type, hint string) *Val {
	return vc.freshVal(st, t, hint)
}

func (vc *FnVC) bytesToString(st *State, x *Val, to types.Type) *Val {
	elem := x.T.Underlying().(*types.Slice).Elem()
	if intBits(elem) != 8 {
		vc.note("string([]rune) havocked")
		return vc.freshVal(st, to, "str")
	}
	s := vc.define("str", "Str", vc.bytesStr(st, x))
	vc.assume(st, sx("=", sx("gs.len", s), sx("s.len", x.S)))
	return &Val{T: to, S: s}
}

// bytesStr is the string value of the current contents of a byte slice.
func (vc *FnVC) bytesStr(st *State, x *Val) string {
	k := vc.memKey(x.T.Underlying().(*types.Slice).Elem())
	vc.usedOfArr = true
	return sx("gs.ofarr", sx("select", vc.get(st, k.Name), sx("s.base", x.S)), sx("s.off", x.S), sx("s.len", x.S))
}

// ---------- type tags for interfaces ----------

func (vc *FnVC) typeTag(t types.Type) string {
	return fmt.Sprint(vc.G.typeTag(t))
}

func (vc *FnVC) makeInterface(st *State, in *ssa.MakeInterface) *Val {
	x := vc.val(st, in.X)
	xt := in.X.Type()
	tag := vc.typeTag(xt)
	var pay string
	switch u := xt.Underlying().(type) {
	case *types.Pointer, *types.Map, *types.Chan, *types.Signature:
		_ = u
		pay = x.S
		if x.Addr != nil && x.Addr.Kind != "cell" {
			vc.note("address of %s escapes into an interface", x.Addr.Key)
		}
	case *types.Struct:
		ref := vc.newRef(st, "box")
		vc.storeStruct(st, xt, ref, x)
		pay = ref
	default:
		s := sortOf(xt)
		if s == "Int" {
			// box ints by an injective pairing would need care: use an uninterpreted box with inverse
		}
		box := "box!" + sortTag(s)
		if !vc.declSet[box] {
			vc.declareFun(box, []string{s}, "Int")
			vc.declareFun("un"+box, []string{"Int"}, s)
			vc.fact(fmt.Sprintf("(forall ((x %s)) (! (and (= (un%s (%s x)) x) (< (%s x) 0)) :pattern ((%s x))))", s, box, box, box, box))
		}
		pay = sx(box, x.S)
	}
	return &Val{T: in.Type(), S: vc.define("iface", "Iface", sx("mkiface", tag, pay))}
}

func (vc *FnVC) unboxPayload(st *State, iface string, t types.Type) *Val {
	switch t.Underlying().(type) {
	case *types.Pointer, *types.Map, *types.Chan, *types.Signature:
		return &Val{T: t, S: sx("i.pay", iface)}
	case *types.Struct:
		return vc.loadStruct(st, t, sx("i.pay", iface))
	}
	s := sortOf(t)
	box := "box!" + sortTag(s)
	if !vc.declSet[box] {
		vc.declareFun(box, []string{s}, "Int")
		vc.declareFun("un"+box, []string{"Int"}, s)
		vc.fact(fmt.Sprintf("(forall ((x %s)) (! (and (= (un%s (%s x)) x) (< (%s x) 0)) :pattern ((%s x))))", s, box, box, box, box))
	}
	r := vc.define("unbox", s, sx("un"+box, sx("i.pay", iface)))
	vc.assume(st, vc.typeFacts(st, t, r))
	return &Val{T: t, S: r}
}

func (vc *FnVC) typeAssert(st *State, in *ssa.TypeAssert) *Val {
	x := vc.val(st, in.X)
	at := in.AssertedType
	var ok string
	if _, isIface := at.Underlying().(*types.Interface); isIface {
		// dynamic type implements interface: uninterpreted predicate on the tag; nil never does
		p := "impl!" + sanitize(typeName(at))
		vc.declareFun(p, []string{"Int"}, "Bool")
		if vc.implPreds == nil {
			vc.implPreds = map[string]types.Type{}
		}
		vc.implPreds[p] = at // facts for every known tag are emitted when the unit is finished
		ok = smtAnd(smtNot(sx("=", sx("i.tag", x.S), "0")), sx(p, sx("i.tag", x.S)))
		if types.Implements(in.X.Type(), at.Underlying().(*types.Interface)) {
			ok = smtNot(sx("=", sx("i.tag", x.S), "0"))
		}
		res := &Val{T: at, S: x.S}
		if in.CommaOk {
			return tuple(in.Type(), &Val{T: at, S: smtIte(ok, x.S, zeroTerm("Iface"))}, &Val{T: types.Typ[types.Bool], S: ok})
		}
		vc.safety(st, "assert-type", vc.srcText(in, in), ok)
		return res
	}
	ok = sx("=", sx("i.tag", x.S), vc.typeTag(at))
	if in.CommaOk {
		okn := vc.define("ok", "Bool", ok)
		pv := vc.unboxPayload(st, x.S, at)
		zv := vc.zeroVal(at)
		return tuple(in.Type(), vc.iteVal(okn, pv, zv), &Val{T: types.Typ[types.Bool], S: okn})
	}
	vc.safety(st, "assert-type", vc.srcText(in, in), ok)
	return vc.unboxPayload(st, x.S, at)
}

func tuple(t types.Type, vs ...*Val) *Val {
	v := &Val{T: t, Fields: map[string]*Val{}}
	for i, x := range vs {
		k := fmt.Sprint(i)
		v.Fields[k] = x
		v.Order = append(v.Order, k)
	}
	return v
}

// oblKey: the prefix of this unit's obligation names: the function key, or for a variant unit (refinement check of an
// interface contract on an implementing method) the variant's own key
func (vc *FnVC) oblKey() string {
	if vc.unit != nil && vc.unit.FnKey != "" {
		return unitKey(vc.unit.Pkg, vc.unit.Func)
	}
	return vc.G.fnKey(vc.fn)
}
