package main

import (
	"encoding/json"
	"fmt"
	"go/types"
	"os"
	"os/exec"
	"path/filepath"
	"strconv"
	"strings"
)

// Generic replay of a counterexample on the real code, for package-level functions (and methods are skipped)
// whose parameters are integers, booleans, strings and byte slices. The model's inputs are poured into an
// in-package test injected with `go test -overlay` (nothing is written into the repository); the real function
// is run; a safety obligation is confirmed by the panic, a postcondition by evaluating the violated clause
// on the concrete inputs and outputs with the solver.

const replayMaxLen = 48

func replayable(t types.Type) bool {
	return isInteger(t) || isBool(t) || isString(t) || isByteSlice(t) && intBits(t.Underlying().(*types.Slice).Elem()) == 8
}

// valueQueries returns the get-value terms for the parameters of o's function.
func valueQueries(o *Obligation) (terms []string, ok bool) {
	vc := o.vc
	fn := vc.fn
	if fn.Signature.Recv() != nil || fn.Parent() != nil || len(fn.FreeVars) > 0 {
		return nil, false
	}
	for _, p := range fn.Params {
		if !replayable(p.Type()) {
			return nil, false
		}
		v := vc.params[p.Name()]
		if v == nil {
			return nil, false
		}
		switch {
		case isString(p.Type()):
			terms = append(terms, sx("gs.len", v.S))
			for i := 0; i < replayMaxLen; i++ {
				terms = append(terms, sx("gs.at", v.S, fmt.Sprint(i)))
			}
		case isByteSlice(p.Type()):
			terms = append(terms, sx("s.len", v.S))
			for i := 0; i < replayMaxLen; i++ {
				terms = append(terms, sx("select", sx("select", entrySym("M!Int"), sx("s.base", v.S)), sx("+", sx("s.off", v.S), fmt.Sprint(i))))
			}
		default:
			terms = append(terms, v.S)
		}
	}
	return terms, true
}

func parseSMTInt(s string) (int64, bool) {
	s = strings.TrimSpace(s)
	neg := false
	if strings.HasPrefix(s, "(-") {
		neg = true
		s = strings.TrimSuffix(strings.TrimSpace(s[2:]), ")")
	}
	n, err := strconv.ParseInt(strings.TrimSpace(s), 10, 64)
	if err != nil {
		return 0, false
	}
	if neg {
		n = -n
	}
	return n, true
}

// tryReplay returns true if the failing obligation was reproduced on the real code.
func tryReplay(g *Global, o *Obligation, path string) bool {
	if o.vc == nil || o.vc.fn == nil {
		appendFile(path, "\nreplay: not applicable (the obligation relates call sites, it is not about one function's inputs)\n")
		return false
	}
	terms, ok := valueQueries(o)
	if ok && o.Result.Status != "sat" && o.Candidate == "" {
		if r2 := solve(stripQuantified(o.script()), 5, nil); r2.Status == "sat" {
			o.Candidate = r2.Output
		}
	}
	if o.Result.Status != "sat" && o.Candidate == "" {
		return false
	}
	if !ok {
		appendFile(path, "\nreplay: not attempted (the function's parameters are outside the generic replay subset)\n")
		return false
	}
	script := o.script()
	if o.Result.Status != "sat" {
		script = stripQuantified(script)
	}
	// ask for the parameter values one term per get-value so that answers are easy to parse
	var q strings.Builder
	for _, t := range terms {
		q.WriteString("(get-value (" + t + "))\n")
	}
	// prefer small inputs
	var small []string
	for _, p := range o.vc.fn.Params {
		v := o.vc.params[p.Name()]
		if isString(p.Type()) {
			small = append(small, sx("<=", sx("gs.len", v.S), "12"))
		} else if isByteSlice(p.Type()) {
			small = append(small, sx("<=", sx("s.len", v.S), "12"))
		}
	}
	vals, err := solveValues(script+"\n(assert "+smtAnd(small...)+")\n", q.String(), len(terms))
	if err != nil {
		vals, err = solveValues(stripQuantified(script)+"\n(assert "+smtAnd(small...)+")\n", q.String(), len(terms))
	}
	if err != nil {
		vals, err = solveValues(script, q.String(), len(terms))
	}
	if err != nil {
		appendFile(path, "\nreplay: could not extract input values from the model: "+err.Error()+"\n")
		return false
	}
	fn := o.vc.fn
	var args []string
	var desc []string
	i := 0
	for _, p := range fn.Params {
		switch {
		case isString(p.Type()), isByteSlice(p.Type()):
			n, _ := parseSMTInt(vals[i])
			i++
			if n > replayMaxLen || n < 0 {
				appendFile(path, fmt.Sprintf("\nreplay: model needs an input of length %d (> %d): not replayed\n", n, replayMaxLen))
				return false
			}
			bs := make([]byte, n)
			for k := 0; k < replayMaxLen; k++ {
				if int64(k) < n {
					b, _ := parseSMTInt(vals[i+k])
					bs[k] = byte(b)
				}
			}
			i += replayMaxLen
			lit := strconv.Quote(string(bs))
			if isByteSlice(p.Type()) {
				args = append(args, "[]byte("+lit+")")
			} else {
				args = append(args, typeConv(p.Type(), fn.Pkg.Pkg, lit))
			}
			desc = append(desc, p.Name()+" = "+lit)
		case isBool(p.Type()):
			args = append(args, vals[i])
			desc = append(desc, p.Name()+" = "+vals[i])
			i++
		default:
			n, _ := parseSMTInt(vals[i])
			i++
			args = append(args, typeConv(p.Type(), fn.Pkg.Pkg, fmt.Sprint(n)))
			desc = append(desc, fmt.Sprintf("%s = %d", p.Name(), n))
		}
	}
	nres := fn.Signature.Results().Len()
	var lhs []string
	for k := 0; k < nres; k++ {
		lhs = append(lhs, fmt.Sprintf("r%d", k))
	}
	call := fn.Name() + "(" + strings.Join(args, ", ") + ")"
	var body strings.Builder
	body.WriteString("package " + fn.Pkg.Pkg.Name() + "\n\nimport (\n\t\"encoding/json\"\n\t\"fmt\"\n\t\"testing\"\n)\n\n")
	body.WriteString("func TestGovcReplay(t *testing.T) {\n\tdefer func() {\n\t\tif r := recover(); r != nil {\n\t\t\tfmt.Printf(\"GOVC-REPLAY-PANIC %v\\n\", r)\n\t\t}\n\t}()\n")
	if nres > 0 {
		body.WriteString("\t" + strings.Join(lhs, ", ") + " := " + call + "\n")
		body.WriteString("\tout, _ := json.Marshal([]any{")
		for k := 0; k < nres; k++ {
			rt := fn.Signature.Results().At(k).Type()
			switch {
			case isString(rt):
				body.WriteString(fmt.Sprintf("[]byte(string(r%d)), ", k))
			case isInteger(rt):
				body.WriteString(fmt.Sprintf("int64(r%d), ", k))
			case isBool(rt):
				body.WriteString(fmt.Sprintf("bool(r%d), ", k))
			case types.Identical(rt, types.Universe.Lookup("error").Type()):
				body.WriteString(fmt.Sprintf("r%d == nil, ", k))
			default:
				body.WriteString(fmt.Sprintf("fmt.Sprint(r%d), ", k))
			}
		}
		body.WriteString("})\n\tfmt.Printf(\"GOVC-REPLAY-RESULT %s\\n\", out)\n")
	} else {
		body.WriteString("\t" + call + "\n\tfmt.Println(\"GOVC-REPLAY-RESULT []\")\n")
	}
	body.WriteString("}\n")
	pkgDir := ""
	for f := range g.files {
		if gf := g.files[f]; gf != nil && gf.Name.Name == fn.Pkg.Pkg.Name() && strings.HasPrefix(f, g.repo) {
			if pos := g.fset.Position(fn.Pos()); filepath.Dir(pos.Filename) == filepath.Dir(f) {
				pkgDir = filepath.Dir(f)
				break
			}
		}
	}
	if pkgDir == "" {
		appendFile(path, "\nreplay: package directory not found\n")
		return false
	}
	testFile := filepath.Join(scratch(), fmt.Sprintf("replay%d_test.go", os.Getpid()))
	os.WriteFile(testFile, []byte(body.String()), 0o644)
	ov, _ := json.Marshal(map[string]any{"Replace": map[string]string{filepath.Join(pkgDir, "zz_govc_replay_test.go"): testFile}})
	ovFile := filepath.Join(scratch(), fmt.Sprintf("overlay%d.json", os.Getpid()))
	os.WriteFile(ovFile, ov, 0o644)
	cmd := exec.Command("go", "test", "-overlay", ovFile, "-vet=off", "-timeout", "60s", "-count=1", "-run", "^TestGovcReplay$", "-v", ".")
	cmd.Dir = pkgDir
	var env []string
	for _, e := range os.Environ() {
		if !strings.HasPrefix(e, "GOFLAGS=") {
			env = append(env, e)
		}
	}
	cmd.Env = append(env, "GOFLAGS=", "GOPROXY=off")
	out, _ := cmd.CombinedOutput()
	outs := string(out)
	rep := "\n---- replay on the real code ----\ninputs: " + strings.Join(desc, "; ") + "\ncall: " + call + "\n"
	confirmed := false
	switch {
	case strings.Contains(outs, "GOVC-REPLAY-PANIC"):
		line := grepLine(outs, "GOVC-REPLAY-PANIC")
		rep += "observed: " + line + "\n"
		confirmed = isSafetyClass(o.Class)
		if !confirmed {
			rep += "the real function panics on this input (the failed obligation is a " + o.Class + " clause)\n"
			confirmed = true
		}
	case strings.Contains(outs, "GOVC-REPLAY-RESULT"):
		line := strings.TrimPrefix(grepLine(outs, "GOVC-REPLAY-RESULT"), "GOVC-REPLAY-RESULT ")
		rep += "observed results: " + line + "\n"
		if isSafetyClass(o.Class) {
			rep += "no panic on this input: the model is an artefact of the abstraction (not reproduced)\n"
		} else {
			confirmed = checkClauseConcretely(o, script, terms, vals, line, &rep)
		}
	default:
		rep += "replay did not run:\n" + firstLines(outs, 12) + "\n"
	}
	if confirmed {
		rep += "REPRODUCED on the real code\n"
	}
	rep += "\n---- replay test ----\n" + body.String()
	appendFile(path, rep)
	return confirmed
}

func isSafetyClass(c string) bool {
	switch c {
	case "index", "slice", "nil", "assert-type", "nil-map", "div", "neg-make", "panic-call":
		return true
	}
	return false
}

func grepLine(s, pat string) string {
	for _, l := range strings.Split(s, "\n") {
		if i := strings.Index(l, pat); i >= 0 {
			return l[i:]
		}
	}
	return ""
}

func typeConv(t types.Type, pkg *types.Package, lit string) string {
	if n, ok := t.(*types.Named); ok {
		name := n.Obj().Name()
		if n.Obj().Pkg() != nil && n.Obj().Pkg() != pkg {
			return lit // foreign named types: rely on untyped constant conversion
		}
		return name + "(" + lit + ")"
	}
	if b, ok := t.(*types.Basic); ok && b.Kind() != types.Int && b.Kind() != types.String && b.Kind() != types.UntypedInt {
		return b.Name() + "(" + lit + ")"
	}
	return lit
}

func appendFile(path, text string) {
	f, err := os.OpenFile(path, os.O_APPEND|os.O_WRONLY, 0o644)
	if err != nil {
		return
	}
	defer f.Close()
	f.WriteString(text)
}

// solveValues runs the script on z3 and returns the answers of the get-value commands in order.
func solveValues(script, queries string, n int) ([]string, error) {
	file := filepath.Join(scratch(), fmt.Sprintf("vals%d.smt2", os.Getpid()))
	full := "(set-option :produce-models true)\n(set-logic ALL)\n" + script + "\n(check-sat)\n" + queries
	os.WriteFile(file, []byte(full), 0o644)
	defer os.Remove(file)
	for _, bin := range []string{"z3-new", "z3"} {
		out, _ := exec.Command(bin, "-T:20", "-smt2", file).CombinedOutput()
		lines := strings.Split(strings.TrimSpace(string(out)), "\n")
		if len(lines) == 0 || strings.TrimSpace(lines[0]) != "sat" {
			continue
		}
		var vals []string
		rest := strings.Join(lines[1:], "\n")
		// each answer has the form ((term value))
		depth, start := 0, -1
		for i := 0; i < len(rest); i++ {
			switch rest[i] {
			case '(':
				if depth == 0 {
					start = i
				}
				depth++
			case ')':
				depth--
				if depth == 0 && start >= 0 {
					ans := rest[start : i+1]
					vals = append(vals, lastValue(ans))
					start = -1
				}
			}
		}
		if len(vals) >= n {
			return vals[:n], nil
		}
	}
	return nil, fmt.Errorf("no model values")
}

// lastValue extracts the value from "((term value))".
func lastValue(ans string) string {
	s := strings.TrimSpace(ans)
	s = strings.TrimSuffix(strings.TrimSuffix(s, ")"), ")")
	s = strings.TrimSpace(s)
	if strings.HasSuffix(s, ")") {
		// negative number "(- 5)"
		i := strings.LastIndex(s, "(")
		return s[i:]
	}
	i := strings.LastIndexAny(s, " \n\t")
	return s[i+1:]
}

// checkClauseConcretely evaluates the violated clause on the concrete inputs and observed outputs.
func checkClauseConcretely(o *Obligation, script string, terms, vals []string, resultJSON string, rep *string) bool {
	var results []any
	if err := json.Unmarshal([]byte(resultJSON), &results); err != nil {
		*rep += "could not parse the observed results\n"
		return false
	}
	// find the return values of the path this obligation belongs to: the obligation's goal mentions them;
	// we constrain every recorded return tuple whose terms occur in the goal
	var cons []string
	for i, t := range terms {
		cons = append(cons, sx("=", t, vals[i]))
	}
	bound := false
	if rv := o.Rets; len(rv) == len(results) && len(rv) > 0 {
		for k, v := range rv {
			if v == nil || v.S == "" {
				continue
			}
			switch r := results[k].(type) {
			case float64:
				cons = append(cons, sx("=", v.S, smtInt(int64(r))))
			case bool:
				if sortOf(v.T) == "Iface" {
					if r {
						cons = append(cons, sx("=", sx("i.tag", v.S), "0"))
					} else {
						cons = append(cons, smtNot(sx("=", sx("i.tag", v.S), "0")))
					}
				} else {
					cons = append(cons, sx("=", v.S, fmt.Sprint(r)))
				}
			case string:
				bs, err := decodeB64(r)
				if err != nil || sortOf(v.T) != "Str" {
					continue
				}
				cons = append(cons, sx("=", sx("gs.len", v.S), fmt.Sprint(len(bs))))
				for j, b := range bs {
					if j >= 256 {
						break
					}
					cons = append(cons, sx("=", sx("gs.at", v.S, fmt.Sprint(j)), fmt.Sprint(b)))
				}
			}
		}
		bound = true
	}
	if !bound {
		*rep += "could not bind the observed results to the verification condition\n"
		return false
	}
	// script already asserts pc and (not goal); add the concrete facts. sat => the clause is false on the real run.
	q := script + "\n(assert " + smtAnd(cons...) + ")\n"
	r := solve(q, 10, nil)
	switch r.Status {
	case "sat":
		*rep += "the violated clause evaluates to FALSE on these concrete inputs and outputs (" + r.Solver + ")\n"
		return true
	case "unsat":
		*rep += "the clause holds on the concrete run: the model does not correspond to a real execution (not reproduced)\n"
	default:
		*rep += "the solver could not evaluate the clause on the concrete run (" + r.Status + ")\n"
	}
	return false
}

func decodeB64(s string) ([]byte, error) {
	var b []byte
	err := json.Unmarshal([]byte(strconv.Quote(s)), &b)
	return b, err
}
