#!/bin/bash
# usage: importseeds.sh <prop> <k1> <k2> : copy /tmp/seed3-<prop>/out/m1,m2 to seeded/<prop>-m<k1>,<k2>, confirm each, run the check
set -u
prop=$1; k1=$2; k2=$3
i=0
for m in m1 m2; do
  i=$((i+1)); k=$k1; [ $i -eq 2 ] && k=$k2
  src=/tmp/seed3-$prop/out/$m; dst=/verif/seeded/$prop-m$k
  [ -d "$src" ] || { echo "missing $src"; continue; }
  mkdir -p "$dst"; cp "$src"/patch.diff "$src"/meta.json "$dst"/; cp "$src"/*_test.go "$dst"/demo_test.go 2>/dev/null
  echo "=== $dst"; /verif/tools/confirmseed.sh "$dst" 2>&1 | tail -25
  echo "--- check"; /verif/tools/runseed.sh "$dst/patch.diff" "$prop" quick
done
