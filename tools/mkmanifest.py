#!/usr/bin/env python3
"""Regenerates /verif/MANIFEST.json from the table below (kept in one place so the manifest is always valid)."""
import json, subprocess, os

BASE = json.load(open('/root/.vp/BASELINE.json'))
CLAIMS = json.load(open('/verif/tools/claims.json'))
props = [json.loads(l) for l in open('/verif/properties.jsonl')]
# the level text / note of every claimed property is the row of the STATUS table in DESIGN.md (one place to keep current)
import re
TABLE={}
for line in open('/verif/DESIGN.md'):
    m=re.match(r'^\| (C\d\d) \| ([^|]*) \| (.*) \| ([^|]*) \|\s*$', line)
    if m and m.group(1) not in TABLE:
        TABLE[m.group(1)]=(m.group(2).strip(), m.group(3).strip(), m.group(4).strip())
TRUSTED=" Trusted in every proof: the VC generator and its write-set inference (VTA call graph, parametricity assumption for library code), go/ssa, the SMT solvers, the assumed library contracts in /verif/specs (listed per run in the evidence file), mathematical integers with the no-overflow assumption stated in DESIGN.md section 3."
for pid,(claimed,proved,notdec) in TABLE.items():
    c=CLAIMS.setdefault(pid,{})
    if claimed.startswith('yes') or claimed.startswith('see'):
        c['claimed']=True
        c['text']="Deductive proof on the real functions (contracts discharged for all inputs, all iterations, every map order and every failing library call): "+proved
        c['note']="Not decided by this check: "+(notdec if notdec not in ('','—') else 'nothing further within the functions under contract')+"."+TRUSTED
hooks_commits = subprocess.run(['git','-C','/repo','log','--format=%H %s'],capture_output=True,text=True).stdout.splitlines()
hook_shas = [l.split()[0] for l in hooks_commits if l.split(' ',1)[1].startswith('verif:')]
checks=[]; na=[]
for p in props:
    pid=p['id']
    c=CLAIMS.get(pid)
    if c and c.get('claimed'):
        checks.append({
            "property_id": pid,
            "quick_cmd": f"./bin/govc check --property {pid} --tier quick",
            "thorough_cmd": f"./bin/govc check --property {pid} --tier thorough",
            "evidence_file": f"/verif/evidence/{pid}.json",
            "replay_cmd_template": "./bin/govc replay {path}",
            "engine": "govc",
            "level_claimed": {"category":"proof","text":c['text'],"design_ref":c.get('design_ref', f"DESIGN.md section 5 {pid}")},
            "level_note": c['note'],
            "technique": c.get('technique',"contract-based deductive verification: weakest-precondition VCs generated from go/ssa of the real functions, contracts in //@ comment files, discharged by z3/cvc5")
        })
    else:
        na.append({"property_id":pid,"reason":(c or {}).get('reason',"contract units for this property are not built yet; no other technique is substituted")})
m={
 "version":1,
 "setup_cmd":"cd /verif/govc && GOFLAGS=-mod=mod GOPROXY=off go build -o ../bin/govc .",
 "hooks":{"guard":"verif","enable":"go build -tags verif (the only guarded files are comment-only zz_contracts_verif.go contract files; govc loads /repo with -tags=verif)",
          "baseline_off_cmd":BASE['cmd'],"source_commits":hook_shas,"add_only":True},
 "engines":[{"name":"govc","path":"/verif/govc","serves_properties":[c['property_id'] for c in checks],
             "kind_free_text":"contract-based deductive verifier for Go written for this task: go/ssa -> passive form -> per-obligation SMT-LIB, raced on z3 4.8.12 / z3 5.1.0 / cvc5 1.0"}],
 "checks":checks,
 "not_applicable":na,
 "notes":"See DESIGN.md. Contracts live in /repo/**/zz_contracts_verif.go (build tag verif) and /verif/specs/*.spec (trusted library contracts). baseline/<id>.json lists obligations generated but not claimed; known_findings.json lists recorded defects."
}
json.dump(m,open('/verif/MANIFEST.json','w'),indent=1)
print("checks:",[c['property_id'] for c in checks]," n/a:",len(na))
