package probe

import (
	"fmt"
	"testing"
)

// Over the argument limit: the pair is dropped; no error variable, no interruption.
func TestArgumentLimitSilentDrop(t *testing.T) {
	tx := newTx(t, `
SecRuleEngine On
SecArgumentsLimit 2
SecRule ARGS_GET|ARGS_GET_NAMES "@contains attack" "id:1,phase:1,deny,status:403"
SecRule REQBODY_ERROR|INBOUND_DATA_ERROR|MULTIPART_STRICT_ERROR|URLENCODED_ERROR|REQBODY_PROCESSOR_ERROR "!@eq 0" "id:2,phase:1,deny,status:400"
`)
	tx.AddGetRequestArgument("a", "1")
	tx.AddGetRequestArgument("b", "2")
	tx.AddGetRequestArgument("c", "attack") // third distinct name: over the limit
	it := tx.ProcessRequestHeaders()
	fmt.Printf("limit 2, args a=1 b=2 c=attack: interruption=%v\n", it)
	if it == nil {
		t.Errorf("argument c=attack vanished: not in ARGS_GET, no error variable set, no interruption")
	}
}

// Same through the public URI path; which argument is lost depends on Go map iteration order.
func TestArgumentLimitSilentDropURI(t *testing.T) {
	lost := 0
	for i := 0; i < 20; i++ {
		tx := newTx(t, `
SecRuleEngine On
SecArgumentsLimit 2
SecRule ARGS_GET "@streq attack" "id:1,phase:1,deny,status:403"
SecRule REQBODY_ERROR|INBOUND_DATA_ERROR|MULTIPART_STRICT_ERROR|URLENCODED_ERROR|REQBODY_PROCESSOR_ERROR "!@eq 0" "id:2,phase:1,deny,status:400"
`)
		tx.ProcessURI("/?a=1&b=2&c=attack", "GET", "HTTP/1.1")
		if it := tx.ProcessRequestHeaders(); it == nil {
			lost++
		}
	}
	fmt.Printf("GET /?a=1&b=2&c=attack with SecArgumentsLimit 2: attack value invisible and unflagged in %d of 20 runs\n", lost)
	if lost > 0 {
		t.Errorf("c=attack silently dropped in %d/20 runs", lost)
	}
}
