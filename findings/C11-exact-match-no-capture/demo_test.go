package coraza

import "testing"

// C11: with SecRxPreFilter On the exact-match fast path (^literal$) returned true without capturing group 0.
func TestC11ExactMatchCapturesGroup0(t *testing.T) {
	tx0 := func(pre string) string {
		waf, err := NewWAF(NewWAFConfig().WithDirectives("SecRuleEngine On\nSecRxPreFilter " + pre + "\n" +
			`SecRule ARGS:a "@rx ^Upload$" "id:1,phase:1,pass,capture,setvar:tx.seen=%{tx.0}"` + "\n" +
			`SecRule TX:seen "@streq Upload" "id:2,phase:1,deny,status:403"` + "\n"))
		if err != nil {
			t.Fatal(err)
		}
		tx := waf.NewTransaction()
		defer tx.Close()
		tx.AddGetRequestArgument("a", "Upload")
		if tx.ProcessRequestHeaders() != nil {
			return "Upload"
		}
		return ""
	}
	if off, on := tx0("Off"), tx0("On"); off != on {
		t.Fatalf("TX.0 after @rx ^Upload$ on \"Upload\": prefilter Off -> %q, prefilter On -> %q", off, on)
	}
}
