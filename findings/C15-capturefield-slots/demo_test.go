package corazawaf

import "testing"

// CaptureField stores outside the ten capture slots TX.0-9 (C15) when called with an index > 9 (or < 0).
func TestXCaptureFieldOutsideSlots(t *testing.T) {
	waf := NewWAF()
	tx := waf.NewTransaction()
	defer tx.Close()
	tx.Capture = true
	tx.CaptureField(10, "leak")
	tx.CaptureField(-1, "neg")
	if got := tx.variables.tx.Get("10"); len(got) != 0 {
		t.Errorf("CaptureField(10, ...) stored TX:10 = %q; only TX.0-9 are capture slots", got)
	}
	if got := tx.variables.tx.Get("-1"); len(got) != 0 {
		t.Errorf("CaptureField(-1, ...) stored TX:-1 = %q", got)
	}
}
