package seclang

import (
	"reflect"
	"regexp"
	"unsafe"
	"github.com/corazawaf/coraza/v3/types/variables"
	"fmt"
	"testing"

	"github.com/corazawaf/coraza/v3/internal/corazawaf"
)

func TestProbePV2(t *testing.T) {
	ins := []string{`ARGS:/abc`, `ARGS:/ab\`, `ARGS:foo/`, `ARGS:/`, `XML://a/`, `ARGS:/a/XARGS_GET`, `ARGS:'/a/'XARGS_GET`, `ARGS:a/b/`, `ARGS:a/b`, `ARGS:'foo'`, `AR!GS`, `ARGS|`, `ARGS:/a\/`, `ARGS:/a\\/`,
	}
	for _, in := range ins {
		rp := &RuleParser{rule: corazawaf.NewRule(), options: RuleOptions{WAF: corazawaf.NewWAF()}}
		err := rp.ParseVariables(in)
		fmt.Printf("%-28q err=%v vars=%s\n", in, err, dumpVars(rp.rule))
	}
}

func dumpVars(r *corazawaf.Rule) string {
	vs := reflect.ValueOf(r).Elem().FieldByName("variables")
	out := ""
	for i := 0; i < vs.Len(); i++ {
		e := vs.Index(i)
		rx := "-"
		if p := e.FieldByName("KeyRx"); !p.IsNil() {
			rx = (*regexp.Regexp)(unsafe.Pointer(p.Pointer())).String()
		}
		out += fmt.Sprintf("[%s key=%q rx=%s count=%v", variables.RuleVariable(e.FieldByName("Variable").Uint()).Name(), e.FieldByName("KeyStr").String(), rx, e.FieldByName("Count").Bool())
		ex := e.FieldByName("Exceptions")
		for j := 0; j < ex.Len(); j++ {
			x := ex.Index(j)
			rx := "-"
			if p := x.FieldByName("KeyRx"); !p.IsNil() {
				rx = (*regexp.Regexp)(unsafe.Pointer(p.Pointer())).String()
			}
			out += fmt.Sprintf(" EXC(%q,%s)", x.FieldByName("KeyStr").String(), rx)
		}
		out += "]"
	}
	return out
}
