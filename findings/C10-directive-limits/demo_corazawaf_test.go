package corazawaf

import (
	"testing"

	"github.com/corazawaf/coraza/v3/types"
)

// NewWAF/post/defAuditEngine: SecAuditEngine is documented with "Default: Off", but NewWAF leaves the zero value,
// which is AuditEngineOn.
func TestZWafcfgDefaultAuditEngine(t *testing.T) {
	w := NewWAF()
	if w.AuditEngine != types.AuditEngineOff {
		t.Errorf("default AuditEngine = %d (On=%d, Off=%d), documented default is Off", w.AuditEngine, types.AuditEngineOn, types.AuditEngineOff)
	}
	tx := w.NewTransaction()
	if tx.AuditEngine != types.AuditEngineOff {
		t.Errorf("a transaction of a default WAF has AuditEngine = %d", tx.AuditEngine)
	}
}
