#!/bin/bash
# usage: runseed.sh <patch.diff> <property> [tier] : apply the seeded change to a scratch copy of /repo and run the check there
set -u
patch=$1; prop=$2; tier=${3:-quick}
s=$(mktemp -d /tmp/runseed.XXXXXX); trap 'rm -rf "$s"' EXIT
mkdir "$s/repo"; (cd /repo && git archive HEAD) | tar -x -C "$s/repo"
(cd "$s/repo" && git apply "$patch") || { echo "patch does not apply"; exit 3; }
cd /verif && GOVC_REPO="$s/repo" GOVC_EVIDENCE_DIR="$s/ev" GOVC_REPLAY_DIR="$s/replay" ./bin/govc check --property "$prop" --tier "$tier" 2>&1 | grep -v "^KNOWN" | tail -6
for f in "$s"/replay/*/*; do [ -f "$f" ] && grep -l "REPRODUCED" "$f" >/dev/null 2>&1 && echo "   replay reproduced: $(basename $f)"; done
