package seclang

import (
	"testing"

	"github.com/corazawaf/coraza/v3/internal/corazawaf"
	"github.com/corazawaf/coraza/v3/types"
)

// directiveSecRuleEngine/post/errorChangesNothing: an invalid option returns an error AND overwrites RuleEngine with -1.
func TestZWafcfgRuleEngineErrorChangesNothing(t *testing.T) {
	w := corazawaf.NewWAF()
	w.RuleEngine = types.RuleEngineDetectionOnly
	err := directiveSecRuleEngine(&DirectiveOptions{WAF: w, Opts: "Onn"})
	if err == nil {
		t.Fatal("expected error")
	}
	if w.RuleEngine != types.RuleEngineDetectionOnly {
		t.Errorf("RuleEngine changed by a failing directive: %d", w.RuleEngine)
	}
}

// negativeRejected: a negative limit is accepted by the directive.
func TestZWafcfgNegativeLimits(t *testing.T) {
	w := corazawaf.NewWAF()
	if err := directiveSecRequestBodyLimit(&DirectiveOptions{WAF: w, Opts: "-5"}); err == nil {
		t.Errorf("SecRequestBodyLimit -5 accepted, RequestBodyLimit=%d", w.RequestBodyLimit)
	}
	if err := directiveSecResponseBodyLimit(&DirectiveOptions{WAF: w, Opts: "-5"}); err == nil {
		t.Errorf("SecResponseBodyLimit -5 accepted, ResponseBodyLimit=%d", w.ResponseBodyLimit)
	}
	if err := directiveSecRequestBodyInMemoryLimit(&DirectiveOptions{WAF: w, Opts: "-5"}); err == nil {
		t.Errorf("SecRequestBodyInMemoryLimit -5 accepted, limit=%d", *w.RequestBodyInMemoryLimit())
	}
	if err := directiveSecRequestBodyNoFilesLimit(&DirectiveOptions{WAF: w, Opts: "-5"}); err == nil {
		t.Errorf("SecRequestBodyNoFilesLimit -5 accepted, RequestBodyNoFilesLimit=%d", w.RequestBodyNoFilesLimit)
	}
}

// directiveSecRequestBodyNoFilesLimit/post/errorChangesNothing: a non-numeric option returns an error AND overwrites the field.
func TestZWafcfgNoFilesLimitErrorChangesNothing(t *testing.T) {
	w := corazawaf.NewWAF()
	w.RequestBodyNoFilesLimit = 131072
	err := directiveSecRequestBodyNoFilesLimit(&DirectiveOptions{WAF: w, Opts: "abc"})
	if err == nil {
		t.Fatal("expected error")
	}
	if w.RequestBodyNoFilesLimit != 131072 {
		t.Errorf("RequestBodyNoFilesLimit changed by a failing directive: %d", w.RequestBodyNoFilesLimit)
	}
	w.RequestBodyNoFilesLimit = 131072
	_ = directiveSecRequestBodyNoFilesLimit(&DirectiveOptions{WAF: w, Opts: "99999999999999999999"})
	if w.RequestBodyNoFilesLimit != 131072 {
		t.Errorf("RequestBodyNoFilesLimit changed by an out-of-range option: %d", w.RequestBodyNoFilesLimit)
	}
}
