package main

import (
	"fmt"
	"go/ast"
	"go/token"
	"go/types"
	"os"
	"sort"
	"strings"

	"golang.org/x/tools/go/ssa"
)

func NewFnVC(g *Global, fn *ssa.Function, unit *Unit) *FnVC {
	return &FnVC{G: g, fn: fn, unit: unit, declSet: map[string]bool{}, vals: map[ssa.Value]*Val{},
		keys: map[string]*KeyInfo{}, outState: map[*ssa.BasicBlock]*State{}, edgePC: map[[2]int]string{},
		edgeSt: map[[2]int]*State{}, loops: map[*ssa.BasicBlock]*loopInfo{}, loopOrd: map[*ssa.BasicBlock]int{},
		oblNames: map[string]int{}, strConst: map[string]string{}, params: map[string]*Val{},
		debugVal: map[types.Object][]debugBinding{}, houdini: map[*ssa.BasicBlock][]Clause{}}
}

// ---------- loops ----------

func (vc *FnVC) findLoops() {
	fn := vc.fn
	for _, b := range fn.Blocks {
		for _, s := range b.Succs {
			if s.Dominates(b) { // back edge b -> s
				li := vc.loops[s]
				if li == nil {
					li = &loopInfo{header: s, blocks: map[*ssa.BasicBlock]bool{s: true}}
					vc.loops[s] = li
				}
				li.backPred = append(li.backPred, b)
				// natural loop: nodes reaching b without passing s
				stack := []*ssa.BasicBlock{b}
				for len(stack) > 0 {
					n := stack[len(stack)-1]
					stack = stack[:len(stack)-1]
					if li.blocks[n] {
						continue
					}
					li.blocks[n] = true
					stack = append(stack, n.Preds...)
				}
			}
		}
	}
	var hs []*ssa.BasicBlock
	for h := range vc.loops {
		hs = append(hs, h)
	}
	sort.Slice(hs, func(i, j int) bool { return hs[i].Index < hs[j].Index })
	for i, h := range hs {
		vc.loops[h].ordinal = i + 1
		vc.loopOrd[h] = i + 1
		if vc.unit != nil {
			vc.loops[h].spec = vc.unit.Loops[i+1]
		}
	}
}

func (vc *FnVC) isBackEdge(from, to *ssa.BasicBlock) bool {
	li := vc.loops[to]
	if li == nil {
		return false
	}
	for _, p := range li.backPred {
		if p == from {
			return true
		}
	}
	return false
}

// order returns blocks in reverse postorder of the CFG without back edges.
func (vc *FnVC) order() []*ssa.BasicBlock {
	seen := map[*ssa.BasicBlock]bool{}
	var post []*ssa.BasicBlock
	var dfs func(b *ssa.BasicBlock)
	dfs = func(b *ssa.BasicBlock) {
		seen[b] = true
		for _, s := range b.Succs {
			if !seen[s] && !vc.isBackEdge(b, s) {
				dfs(s)
			}
		}
		post = append(post, b)
	}
	dfs(vc.fn.Blocks[0])
	if vc.fn.Recover != nil && !seen[vc.fn.Recover] {
		// recover block is not analysed
	}
	for i, j := 0, len(post)-1; i < j; i, j = i+1, j-1 {
		post[i], post[j] = post[j], post[i]
	}
	return post
}

// keysWrittenInLoop over-approximates the state keys a loop may modify.
func (vc *FnVC) keysWrittenIn(blocks map[*ssa.BasicBlock]bool) (keys map[string]bool, all bool) {
	keys = map[string]bool{}
	vc.loopFresh = map[string]bool{}
	for b := range blocks {
		for _, in := range b.Instrs {
			wsf, a := vc.G.instrWritesFresh(vc.fn, in)
			ws := wsf.keys
			for k := range wsf.fresh {
				vc.loopFresh[k] = true
			}
			if a {
				all = true
			}
			for k := range ws {
				if strings.HasPrefix(k, "?local:") {
					if lk, ok := vc.localKeys[k[7:]]; ok {
						keys[lk] = true
					}
					continue
				}
				if strings.HasPrefix(k, "IT!") {
					if vc.keys[k] != nil {
						keys[k] = true
					}
					continue
				}
				keys[k] = true
			}
		}
	}
	vc.expandPtrKeys(keys)
	return
}

// expandPtrKeys replaces the pseudo key "?ptr:<sort>" (store through a scalar pointer of unknown origin)
// by every known key holding values of that sort.
func (vc *FnVC) expandPtrKeys(keys map[string]bool) {
	for k := range keys {
		if !strings.HasPrefix(k, "?ptr:") {
			continue
		}
		delete(keys, k)
		s := k[5:]
		gt := ""
		if i := strings.Index(s, "|"); i >= 0 {
			s, gt = s[:i], s[i+1:]
		}
		for name, ki := range vc.keys {
			switch ki.Kind {
			case "field", "cell":
				if ki.Sort == "(Array Int "+s+")" && (ki.Kind == "cell" || gt == "" || ki.GoType == "" || ki.GoType == gt) {
					keys[name] = true
				}
			case "mem":
				if ki.Sort == "(Array Int (Array Int "+s+"))" {
					keys[name] = true
				}
			case "global":
				if ki.Sort == s && (gt == "" || ki.GoType == "" || ki.GoType == gt) {
					keys[name] = true
				}
			}
		}
		vc.note("store through a *%s of unknown origin: all known locations of that type havocked", gt)
	}
}

// ---------- main ----------

func (vc *FnVC) Run() {
	fn := vc.fn
	if len(fn.Blocks) == 0 {
		vc.unsupported("no body")
		return
	}
	vc.collectDebug()
	vc.findLoops()
	st := &State{m: map[string]string{}, pc: "true"}
	vc.allocKey()
	vc.assume(st, sx("<=", "0", entrySym("$alloc")))
	vc.entry = st.clone()
	// parameters
	for i, p := range fn.Params {
		v := vc.freshVal(st, p.Type(), "p."+p.Name())
		vc.vals[p] = v
		vc.params[p.Name()] = v
		if i == 0 && fn.Signature.Recv() != nil {
			if _, isP := p.Type().Underlying().(*types.Pointer); isP {
				vc.assume(st, sx(">", v.S, "0")) // implicit: receiver is non-nil (checked at call sites as pre)
			}
		}
	}
	for _, fv := range fn.FreeVars {
		vc.val(st, fv)
	}
	// lemmas: closed formulas, proved before anything is assumed about this call
	if vc.unit != nil {
		env := vc.envAt(st, nil)
		for i, l := range vc.unit.Lemmas {
			t, err := vc.evalBool(env, l.E)
			if err != nil {
				vc.contractError("lemma %s: %v", l.Text, err)
				continue
			}
			lbl := l.Name
			if lbl == "" {
				lbl = fmt.Sprintf("lemma%d", i+1)
			}
			vc.oblige(st, "lemma", lbl, t, "lemma: "+l.Text)
		}
	}
	// requires
	if vc.unit != nil {
		env := vc.envAt(st, nil)
		for _, r := range vc.unit.Requires {
			t, err := vc.evalBool(env, r.E)
			if err != nil {
				vc.contractError("requires %s: %v", r.Text, err)
				continue
			}
			vc.assume(st, t)
		}
		// vacuity cover: the precondition must be satisfiable
		o := vc.oblige(st, "cover", "requires", "false", "precondition is satisfiable (must be SAT)")
		if o != nil {
			o.Cover = true
		}
	}
	vc.entry.pc = st.pc
	vc.entry.m = map[string]string{}
	for k, v := range st.m {
		vc.entry.m[k] = v
	}
	entryState := st

	for _, b := range vc.order() {
		vc.curBlock = b
		var bst *State
		if b == fn.Blocks[0] {
			bst = entryState
		} else {
			bst = vc.mergeInto(b)
			if bst == nil {
				continue // unreachable
			}
		}
		vc.runBlock(b, bst)
	}
	if vc.unit != nil {
		for _, a := range vc.unit.Ats {
			used := false
			for _, u := range vc.atUsed {
				if u == a.Text {
					used = true
				}
			}
			if !used {
				vc.contractError("at %q: no instruction of the function matches this text", a.Text)
			}
		}
	}
}

func (vc *FnVC) contractError(f string, a ...any) {
	vc.outside = append(vc.outside, "contract error: "+fmt.Sprintf(f, a...))
}

func (vc *FnVC) collectDebug() {
	for _, b := range vc.fn.Blocks {
		for i, in := range b.Instrs {
			if d, ok := in.(*ssa.DebugRef); ok {
				obj := d.Object()
				if obj == nil {
					continue
				}
				vc.debugVal[obj] = append(vc.debugVal[obj], debugBinding{b, i, d.X, d.IsAddr})
			}
		}
	}
}

type edge struct {
	from *ssa.BasicBlock
	pc   string
	st   *State
}

func (vc *FnVC) inEdges(b *ssa.BasicBlock, back bool) []edge {
	var es []edge
	for _, p := range b.Preds {
		if vc.isBackEdge(p, b) != back {
			continue
		}
		k := [2]int{p.Index, b.Index}
		pc, ok := vc.edgePC[k]
		if !ok {
			continue
		}
		es = append(es, edge{p, pc, vc.edgeSt[k]})
	}
	return es
}

// mergeStates joins states along mutually exclusive edges.
func (vc *FnVC) mergeStates(es []edge) *State {
	if len(es) == 1 {
		s := es[0].st.clone()
		s.pc = es[0].pc
		return s
	}
	out := &State{m: map[string]string{}}
	var pcs []string
	for _, e := range es {
		pcs = append(pcs, e.pc)
	}
	out.pc = vc.define("pc", "Bool", smtOr(pcs...))
	out.dflt = es[0].st.dflt
	for _, e := range es[1:] {
		if e.st.dflt != out.dflt {
			// different "unknown effects" histories: keys never mentioned so far are havocked (sound, coarse)
			vc.havocAll(out)
			break
		}
	}
	keys := map[string]bool{}
	if out.dflt != es[0].st.dflt {
		for k := range vc.keys { // keys known so far are merged precisely
			keys[k] = true
		}
	}
	for _, e := range es {
		for k := range e.st.m {
			keys[k] = true
		}
	}
	for _, k := range sortedKeys(keys) {
		same := true
		first := vc.get(es[0].st, k)
		for _, e := range es[1:] {
			if vc.get(e.st, k) != first {
				same = false
				break
			}
		}
		if same {
			out.m[k] = first
			continue
		}
		term := vc.get(es[len(es)-1].st, k)
		for i := len(es) - 2; i >= 0; i-- {
			term = smtIte(es[i].pc, vc.get(es[i].st, k), term)
		}
		ki := vc.keys[k]
		out.m[k] = vc.define(shortKey(k)+"~m", ki.Sort, term)
	}
	return out
}

func (vc *FnVC) mergeInto(b *ssa.BasicBlock) *State {
	es := vc.inEdges(b, false)
	if len(es) == 0 {
		return nil
	}
	st := vc.mergeStates(es)
	li := vc.loops[b]
	// phis (non-header): ite over edges
	if li == nil {
		for _, in := range b.Instrs {
			phi, ok := in.(*ssa.Phi)
			if !ok {
				break
			}
			var v *Val
			for i := len(es) - 1; i >= 0; i-- {
				iv := vc.phiIncoming(st, phi, b, es[i].from)
				if v == nil {
					v = iv
				} else {
					v = vc.iteVal(es[i].pc, iv, v)
				}
			}
			vc.vals[phi] = vc.nameVal(phi.Name(), v)
		}
		return st
	}
	// ----- loop header -----
	li.preState = st.clone()
	// 1. check invariants on entry: with phi := incoming value, state := edge state
	invs := vc.loopInvariants(li)
	for _, e := range es {
		est := e.st.clone()
		est.pc = e.pc
		env := vc.envAt(est, li)
		env.phiOverride = map[string]*Val{}
		for _, in := range b.Instrs {
			phi, ok := in.(*ssa.Phi)
			if !ok {
				break
			}
			env.phiOverride[phiAlias(phi.Comment)] = vc.phiIncoming(est, phi, b, e.from)
			env.phiByValue(phi, env.phiOverride[phiAlias(phi.Comment)])
		}
		for i, inv := range invs {
			t, err := vc.evalBool(env, inv.E)
			if err != nil {
				vc.contractError("loop %d invariant %q: %v", li.ordinal, inv.Text, err)
				continue
			}
			vc.curInstr = nil
			vc.oblige(est, "inv-entry", fmt.Sprintf("loop%d/%s", li.ordinal, clauseLabel(inv, i)), t, "invariant holds on entry: "+inv.Text)
		}
	}
	// 2. havoc
	keys, all := vc.keysWrittenIn(li.blocks)
	if all {
		for k := range vc.keys {
			if vc.keys[k].Kind != "local" || keys[k] {
				keys[k] = true
			}
		}
		vc.note("loop %d: a callee with unknown effects havocs the whole heap", li.ordinal)
	}
	// make sure keys exist before havoc
	for k := range keys {
		vc.ensureKey(k)
	}
	if all {
		vc.havocAll(st)
	}
	preAlloc := vc.get(st, "$alloc")
	// keys written in the loop only at objects allocated by this function: havocked too, but every object that
	// existed when the function was entered keeps its value
	var freshOnly []string
	for k := range vc.loopFresh {
		if !keys[k] && !all {
			freshOnly = append(freshOnly, k)
			keys[k] = true
			if vc.keys[k] == nil {
				if ki := vc.G.keyInfo(k); ki != nil {
					vc.keyFrom(ki)
				}
			}
		}
	}
	pre := map[string]string{}
	for _, k := range freshOnly {
		if vc.keys[k] != nil {
			pre[k] = vc.get(st, k)
		}
	}
	for _, k := range sortedKeys(keys) {
		if vc.keys[k] == nil {
			continue
		}
		vc.havocKey(st, k)
	}
	for _, k := range sortedKeys(keys) {
		if vc.keys[k] != nil && k != "$alloc" {
			vc.assume(st, vc.wfHeap(st, k))
		}
	}
	sort.Strings(freshOnly)
	for _, k := range freshOnly {
		ki := vc.keys[k]
		if ki == nil || !strings.HasPrefix(ki.Sort, "(Array Int ") {
			continue
		}
		cur := vc.get(st, k)
		vc.assume(st, fmt.Sprintf("(forall ((r Int)) (! (=> (<= (ref.root r) %s) (= (select %s r) (select %s r))) :pattern ((select %s r))))", entrySym("$alloc"), cur, pre[k], cur))
	}
	if keys["$alloc"] {
		vc.assume(st, sx(">=", vc.get(st, "$alloc"), preAlloc))
	}
	li.phiVals = map[string]*Val{}
	for _, in := range b.Instrs {
		phi, ok := in.(*ssa.Phi)
		if !ok {
			break
		}
		v := vc.freshVal(st, phi.Type(), phi.Name()+"."+phi.Comment)
		vc.vals[phi] = v
		if phi.Comment == "rangeindex" {
			// the lowering of range-over-slice starts the index at -1 and only increments it
			vc.assume(st, sx("<=", "(- 1)", v.S))
		}
		if phi.Comment != "" {
			li.phiVals[phiAlias(phi.Comment)] = v
		}
	}
	// 3. assume invariants
	env := vc.envAt(st, li)
	for _, inv := range invs {
		t, err := vc.evalBool(env, inv.E)
		if err != nil {
			continue
		}
		vc.assume(st, t)
	}
	li.headSt = st.clone()
	if li.spec != nil && li.spec.Decreases != nil {
		if t, err := vc.evalTerm(env, li.spec.Decreases.E); err == nil {
			li.decr0 = vc.define("decr", "Int", t.S)
		}
	}
	return st
}

func clauseLabel(c Clause, i int) string {
	if c.Name != "" {
		return c.Name
	}
	return fmt.Sprintf("inv%d", i+1)
}

func (vc *FnVC) loopInvariants(li *loopInfo) []Clause {
	var invs []Clause
	if li.spec != nil {
		invs = append(invs, li.spec.Invariants...)
	}
	invs = append(invs, vc.houdiniByOrd[li.ordinal]...)
	return invs
}

func (vc *FnVC) phiIncoming(st *State, phi *ssa.Phi, b, from *ssa.BasicBlock) *Val {
	for i, p := range b.Preds {
		if p == from {
			return vc.val(st, phi.Edges[i])
		}
	}
	return vc.freshVal(st, phi.Type(), "phi?")
}

func (vc *FnVC) nameVal(name string, v *Val) *Val {
	if v == nil || v.Fields != nil || v.S == "" {
		return v
	}
	s := sortOf(v.T)
	if s == "" {
		return v
	}
	nv := *v
	nv.S = vc.define(name, s, v.S)
	return &nv
}

// checkBackEdge emits inv-preserve obligations for the edge from -> header.
func (vc *FnVC) checkBackEdge(from, header *ssa.BasicBlock, st *State) {
	li := vc.loops[header]
	env := vc.envAt(st, li)
	env.phiOverride = map[string]*Val{}
	for _, in := range header.Instrs {
		phi, ok := in.(*ssa.Phi)
		if !ok {
			break
		}
		iv := vc.phiIncoming(st, phi, header, from)
		env.phiOverride[phiAlias(phi.Comment)] = iv
		env.phiByValue(phi, iv)
	}
	vc.curInstr = nil
	if vc.unit != nil && !vc.unit.Opts["sweep"] && !vc.inferOnly && li.spec != nil {
		// vacuity guard: some execution completes an iteration of an annotated loop along this back edge
		if o := vc.oblige(st, "cover-return", fmt.Sprintf("loop%d/iterates", li.ordinal), "false", "an iteration of the loop can complete under the assumed contracts (must not be UNSAT)"); o != nil {
			o.Cover = true
		}
	}
	for i, inv := range vc.loopInvariants(li) {
		t, err := vc.evalBool(env, inv.E)
		if err != nil {
			vc.contractError("loop %d invariant %q: %v", li.ordinal, inv.Text, err)
			continue
		}
		vc.oblige(st, "inv-preserve", fmt.Sprintf("loop%d/%s", li.ordinal, clauseLabel(inv, i)), t, "invariant preserved: "+inv.Text)
	}
	if li.spec != nil {
		env.bodyLocals = true
		for i, sc := range li.spec.Steps {
			t, err := vc.evalBool(env, sc.E)
			if err != nil {
				vc.contractError("loop %d step %q: %v", li.ordinal, sc.Text, err)
				continue
			}
			lbl := sc.Name
			if lbl == "" {
				lbl = fmt.Sprintf("step%d", i+1)
			}
			vc.oblige(st, "step", fmt.Sprintf("loop%d/%s", li.ordinal, lbl), t, "holds at the end of every iteration: "+sc.Text)
		}
		env.bodyLocals = false
	}
	if li.spec != nil && li.spec.Decreases != nil && li.decr0 != "" {
		if t, err := vc.evalTerm(env, li.spec.Decreases.E); err == nil {
			vc.oblige(st, "decreases", fmt.Sprintf("loop%d", li.ordinal), smtAnd(sx("<", t.S, li.decr0), sx("<=", "0", li.decr0)), "variant decreases and is bounded: "+li.spec.Decreases.Text)
		}
	}
}

func (vc *FnVC) setEdge(from, to *ssa.BasicBlock, st *State, cond string) {
	pc := vc.define("pc", "Bool", smtAnd(st.pc, cond))
	if vc.isBackEdge(from, to) {
		// the edge may at the same time leave an inner loop (inner loop's exit is the outer loop's back edge)
		vc.checkLoopExit(from, to, st, pc)
		bs := st.clone()
		bs.pc = pc
		vc.checkBackEdge(from, to, bs)
		return
	}
	k := [2]int{from.Index, to.Index}
	vc.edgePC[k] = pc
	vc.edgeSt[k] = st
	vc.checkLoopExit(from, to, st, pc)
}

// checkLoopExit: `exits` clauses of every loop that the edge from -> to leaves by break.
func (vc *FnVC) checkLoopExit(from, to *ssa.BasicBlock, st *State, pc string) {
	for h, li := range vc.loops {
		if li.spec != nil && len(li.spec.Afters) > 0 && from == h && !li.blocks[to] {
			est := st.clone()
			est.pc = pc
			env := vc.envAt(est, li)
			vc.curInstr = nil
			for i, ac := range li.spec.Afters {
				t, err := vc.evalBool(env, ac.E)
				if err != nil {
					vc.contractError("loop %d after %q: %v", li.ordinal, ac.Text, err)
					continue
				}
				lbl := ac.Name
				if lbl == "" {
					lbl = fmt.Sprintf("after%d", i+1)
				}
				vc.oblige(est, "loop-after", fmt.Sprintf("loop%d/%s", li.ordinal, lbl), t, "holds when the loop has terminated: "+ac.Text)
			}
		}
		if li.spec == nil || len(li.spec.Exits) == 0 || !li.blocks[from] || li.blocks[to] || from == h {
			continue
		}
		est := st.clone()
		est.pc = pc
		env := vc.envAt(est, li)
		env.bodyLocals = true
		vc.curInstr = nil
		for i, ec := range li.spec.Exits {
			t, err := vc.evalBool(env, ec.E)
			if err != nil {
				vc.contractError("loop %d exits %q: %v", li.ordinal, ec.Text, err)
				continue
			}
			lbl := ec.Name
			if lbl == "" {
				lbl = fmt.Sprintf("exits%d", i+1)
			}
			vc.oblige(est, "loop-exit", fmt.Sprintf("loop%d/%s", li.ordinal, lbl), t, "holds whenever the loop is left early: "+ec.Text)
		}
	}
}

// checkAts: `at "text" requires E` assertions attached to the current instruction.
func (vc *FnVC) checkAts(st *State, in ssa.Instruction) {
	if vc.unit == nil || len(vc.unit.Ats) == 0 {
		return
	}
	switch in.(type) {
	case *ssa.DebugRef, *ssa.Phi, *ssa.Jump, *ssa.If:
		return
	}
	var txt string
	if v, ok := in.(ssa.Value); ok {
		txt = vc.srcText(v, in)
	} else {
		txt = vc.srcText(nil, in)
	}
	if st, ok := in.(*ssa.Store); ok {
		// a store is identified by the whole assignment statement it belongs to
		if t := vc.G.stmtAt(st.Pos()); t != "" {
			txt = t
		}
	}
	if mu, ok := in.(*ssa.MapUpdate); ok {
		if t := vc.G.stmtAt(mu.Pos()); t != "" {
			txt = t
		}
	}
	if bo, ok := in.(*ssa.BinOp); ok {
		// the operation of `x op= y` is identified by that statement
		if t := vc.G.opAssignAt(bo.Pos()); t != "" {
			txt = t
		}
	}
	if os.Getenv("GOVC_DEBUG_AT") != "" {
		fmt.Fprintf(os.Stderr, "at-text %T %q\n", in, txt)
	}
	for ai, a := range vc.unit.Ats {
		if !strings.Contains(txt, a.Text) {
			continue
		}
		if _, isCall := in.(ssa.CallInstruction); a.CallOnly && !isCall {
			continue
		}
		if _, isMU := in.(*ssa.MapUpdate); a.MapOnly && !isMU {
			continue
		}
		key := fmt.Sprintf("%p|%s|%d", in, a.Text, ai)
		if vc.atDone == nil {
			vc.atDone = map[string]bool{}
		}
		if vc.atDone[key] {
			continue
		}
		vc.atDone[key] = true
		// the innermost loop containing the instruction gives the meaning of loop variable names
		var li *loopInfo
		for _, l := range vc.loops {
			if l.blocks[in.Block()] && (li == nil || len(l.blocks) < len(li.blocks)) {
				li = l
			}
		}
		env := vc.envAt(st, li)
		env.bodyLocals = true
		if ci, isCall := in.(ssa.CallInstruction); isCall {
			for _, av := range ci.Common().Args {
				env.callArgs = append(env.callArgs, vc.val(st, av))
			}
		}
		if mu, isMU := in.(*ssa.MapUpdate); isMU {
			env.callArgs = []*Val{vc.val(st, mu.Map), vc.val(st, mu.Key), vc.val(st, mu.Value)}
		}
		t, err := vc.evalBool(env, a.C.E)
		if err != nil {
			vc.contractError("at %q (instruction %s): %v", a.Text, in, err)
			continue
		}
		lbl := a.C.Name
		if lbl == "" {
			lbl = "assert"
		}
		vc.oblige(st, "at", a.Text+"/"+lbl, t, "assertion at "+a.Text+": "+a.C.Text)
		vc.atUsed = append(vc.atUsed, a.Text)
	}
}

// checkGuards: `guards T.f by EXPR` -- every place where the body takes the address of field f of a T (to read it, write
// it, or use the map / slice stored in it) is reached only while EXPR(self) holds, self being that object.
func (vc *FnVC) checkGuards(st *State, x *ssa.FieldAddr) {
	if vc.unit == nil || len(vc.unit.Guards) == 0 {
		return
	}
	pt, ok := x.X.Type().Underlying().(*types.Pointer)
	if !ok {
		return
	}
	stt, ok := pt.Elem().Underlying().(*types.Struct)
	if !ok {
		return
	}
	tn := typeName(pt.Elem())
	if i := strings.LastIndex(tn, "."); i >= 0 {
		tn = tn[i+1:]
	}
	fname := stt.Field(x.Field).Name()
	for _, gs := range vc.unit.Guards {
		if gs.Type != tn || gs.Field != fname {
			continue
		}
		var li *loopInfo
		for _, l := range vc.loops {
			if l.blocks[x.Block()] && (li == nil || len(l.blocks) < len(li.blocks)) {
				li = l
			}
		}
		env := vc.envAt(st, li)
		env.bodyLocals = true
		env.vars["self"] = vc.val(st, x.X)
		t, err := vc.evalBool(env, gs.C.E)
		if err != nil {
			vc.contractError("guards %s.%s: %v", gs.Type, gs.Field, err)
			continue
		}
		lbl := gs.C.Name
		if lbl == "" {
			lbl = "held"
		}
		vc.oblige(st, "guarded", gs.Type+"."+gs.Field+"/"+lbl, t, "access to "+gs.Type+"."+gs.Field+" only while "+gs.C.Text)
	}
}

func (vc *FnVC) runBlock(b *ssa.BasicBlock, st *State) {
	for _, in := range b.Instrs {
		vc.curInstr = in
		switch x := in.(type) {
		case *ssa.Phi, *ssa.DebugRef:
			// handled at merge
		case *ssa.If:
			c := vc.val(st, x.Cond)
			cn := vc.define("c", "Bool", c.S)
			vc.setEdge(b, b.Succs[0], st.clone(), cn)
			vc.setEdge(b, b.Succs[1], st.clone(), smtNot(cn))
			return
		case *ssa.Jump:
			vc.setEdge(b, b.Succs[0], st, "true")
			return
		case *ssa.Return:
			vc.doReturn(st, x)
			return
		case *ssa.Panic:
			if vc.unit == nil || !vc.unit.Opts["maypanic"] {
				vc.oblige(st, "panic-call", vc.srcText(nil, x), "false", "explicit panic is unreachable")
			}
			return
		default:
			vc.checkAts(st, in)
			vc.instr(st, in)
		}
	}
}

func (vc *FnVC) doReturn(st *State, r *ssa.Return) {
	var rs []*Val
	for _, x := range r.Results {
		rs = append(rs, vc.val(st, x))
	}
	vc.retVals = append(vc.retVals, rs)
	if vc.unit == nil {
		return
	}
	if !vc.unit.Opts["sweep"] && !vc.inferOnly {
		// vacuity guard: this return must be reachable under everything assumed so far (must NOT be unsat)
		if o := vc.oblige(st, "cover-return", "reachable", "false", "this return is reachable under the assumed contracts (must not be UNSAT)"); o != nil {
			o.Cover = true
		}
	}
	env := vc.envAt(st, nil)
	env.results = rs
	env.atReturn = true
	for i, e := range vc.unit.Ensures {
		if strings.HasPrefix(e.Name, "def_") {
			continue // definitional ghost effect: assumed by callers, nothing to check in the body
		}
		t, err := vc.evalBool(env, e.E)
		if err != nil {
			vc.contractError("ensures %q: %v", e.Text, err)
			continue
		}
		if o := vc.oblige(st, "post", clauseLabel2(e, i), t, "postcondition: "+e.Text); o != nil {
			o.Rets = rs
		}
	}
	if vc.unit.HasMod && !vc.unit.ModInferred {
		vc.frameCheck(st)
	}
	vc.enumChecks(st, env)
	vc.preservesCheck(st, env)
	vc.checkLoopReturns(st, r, rs)
}

// astLoop maps an SSA loop to the innermost for/range statement of the function's syntax that contains the
// positions of all its instructions.
func (vc *FnVC) astLoop(li *loopInfo) ast.Node {
	if li.astDone {
		return li.ast
	}
	li.astDone = true
	syn := vc.fn.Syntax()
	if syn == nil {
		return nil
	}
	var ps []token.Pos
	for b := range li.blocks {
		for _, in := range b.Instrs {
			if p := in.Pos(); p.IsValid() && p >= syn.Pos() && p <= syn.End() {
				ps = append(ps, p)
			}
		}
	}
	if len(ps) == 0 {
		return nil
	}
	ast.Inspect(syn, func(n ast.Node) bool {
		switch n.(type) {
		case *ast.ForStmt, *ast.RangeStmt:
			for _, p := range ps {
				if p < n.Pos() || p > n.End() {
					return true
				}
			}
			li.ast = n // inner loops are visited later and overwrite
		case *ast.FuncLit:
			return false
		}
		return true
	})
	return li.ast
}

// checkLoopReturns: `returns` clauses of every loop whose body lexically contains this return statement.
func (vc *FnVC) checkLoopReturns(st *State, r *ssa.Return, rs []*Val) {
	if !r.Pos().IsValid() {
		return
	}
	for _, li := range vc.loops {
		if li.spec == nil || len(li.spec.Returns) == 0 {
			continue
		}
		n := vc.astLoop(li)
		if n == nil {
			vc.contractError("loop %d: cannot locate the loop in the syntax (returns clause)", li.ordinal)
			continue
		}
		var body *ast.BlockStmt
		switch l := n.(type) {
		case *ast.ForStmt:
			body = l.Body
		case *ast.RangeStmt:
			body = l.Body
		}
		if body == nil || r.Pos() < body.Pos() || r.Pos() > body.End() {
			continue
		}
		env := vc.envAt(st, li)
		env.bodyLocals = true
		env.results = rs
		env.atReturn = true
		for i, c := range li.spec.Returns {
			t, err := vc.evalBool(env, c.E)
			if err != nil {
				vc.contractError("loop %d returns %q: %v", li.ordinal, c.Text, err)
				continue
			}
			lbl := c.Name
			if lbl == "" {
				lbl = fmt.Sprintf("returns%d", i+1)
			}
			if o := vc.oblige(st, "loop-returns", fmt.Sprintf("loop%d/%s", li.ordinal, lbl), t, "holds at every return inside the loop: "+c.Text); o != nil {
				o.Rets = rs
			}
		}
	}
}

func clauseLabel2(c Clause, i int) string {
	if c.Name != "" {
		return c.Name
	}
	return fmt.Sprintf("ensures%d", i+1)
}

// ---------- instructions ----------

func (vc *FnVC) instr(st *State, in ssa.Instruction) {
	switch x := in.(type) {
	case *ssa.Alloc:
		vc.vals[x] = vc.alloc(st, x)
	case *ssa.BinOp:
		vc.vals[x] = vc.binop(st, x)
	case *ssa.UnOp:
		vc.vals[x] = vc.unop(st, x)
	case *ssa.Call:
		v := vc.call(st, x.Common(), x, x.Type())
		if v != nil {
			vc.vals[x] = v
		}
	case *ssa.ChangeType:
		v := *vc.val(st, x.X)
		v.T = x.Type()
		vc.vals[x] = &v
	case *ssa.ChangeInterface:
		v := *vc.val(st, x.X)
		v.T = x.Type()
		vc.vals[x] = &v
	case *ssa.Convert:
		vc.vals[x] = vc.convert(st, x)
	case *ssa.MakeInterface:
		vc.vals[x] = vc.makeInterface(st, x)
	case *ssa.TypeAssert:
		vc.vals[x] = vc.typeAssert(st, x)
	case *ssa.Extract:
		t := vc.val(st, x.Tuple)
		f := t.Fields[fmt.Sprint(x.Index)]
		if f == nil {
			f = vc.freshVal(st, x.Type(), "extract")
		}
		vc.vals[x] = f
	case *ssa.Field:
		s := vc.val(st, x.X)
		u := x.X.Type().Underlying().(*types.Struct)
		f := s.Fields[u.Field(x.Field).Name()]
		if f == nil {
			f = vc.freshVal(st, x.Type(), "field")
		}
		vc.vals[x] = f
	case *ssa.FieldAddr:
		vc.checkGuards(st, x)
		vc.vals[x] = vc.fieldAddr(st, x)
	case *ssa.IndexAddr:
		vc.vals[x] = vc.indexAddr(st, x)
	case *ssa.Index:
		a := vc.val(st, x.X)
		i := vc.val(st, x.Index)
		if isString(x.X.Type()) {
			vc.safety(st, "index", vc.srcText(x, x), smtAnd(sx("<=", "0", i.S), sx("<", i.S, sx("gs.len", a.S))))
			t := vc.define(x.Name(), "Int", sx("gs.at", a.S, i.S))
			vc.assume(st, smtAnd(sx("<=", "0", t), sx("<=", t, "255")))
			vc.vals[x] = &Val{T: x.Type(), S: t}
		} else if at, ok := x.X.Type().Underlying().(*types.Array); ok && a.S != "" {
			vc.safety(st, "index", vc.srcText(x, x), smtAnd(sx("<=", "0", i.S), sx("<", i.S, fmt.Sprint(at.Len()))))
			vc.vals[x] = &Val{T: x.Type(), S: vc.define(x.Name(), sortOf(x.Type()), sx("select", a.S, i.S))}
		} else {
			vc.vals[x] = vc.freshVal(st, x.Type(), "index")
		}
	case *ssa.Lookup:
		vc.vals[x] = vc.lookup(st, x)
	case *ssa.Slice:
		vc.vals[x] = vc.sliceOp(st, x)
	case *ssa.MakeMap:
		vc.vals[x] = vc.makeMap(st, x)
	case *ssa.MakeSlice:
		vc.vals[x] = vc.makeSlice(st, x)
	case *ssa.MakeClosure:
		v := vc.freshVal(st, x.Type(), "closure")
		vc.assume(st, sx(">", v.S, "0"))
		vc.vals[x] = v
		// captured addresses of field/elem cells escape
		for _, b := range x.Bindings {
			bv := vc.val(st, b)
			if bv.Addr != nil && (bv.Addr.Kind == "field" || bv.Addr.Kind == "elem" || bv.Addr.Kind == "local") {
				vc.note("closure captures the address of %s", bv.Addr.Key)
			}
		}
	case *ssa.MapUpdate:
		vc.mapUpdate(st, x)
	case *ssa.Store:
		p := vc.val(st, x.Addr)
		v := vc.val(st, x.Val)
		vc.nilCheck(st, x.Addr, p, x)
		vc.store(st, p, v)
	case *ssa.Range:
		vc.vals[x] = vc.rangeInit(st, x)
	case *ssa.Next:
		vc.vals[x] = vc.next(st, x)
	case *ssa.Defer:
		vc.deferred = append(vc.deferred, x)
	case *ssa.RunDefers:
		vc.runDefers(st, x)
	case *ssa.Go:
		vc.unsupported("go statement")
	case *ssa.Send, *ssa.Select, *ssa.MakeChan:
		vc.unsupported("channel operation")
		if v, ok := in.(ssa.Value); ok {
			vc.vals[v] = vc.freshVal(st, v.Type(), "chan")
		}
	case *ssa.SliceToArrayPointer, *ssa.MultiConvert:
		v := in.(ssa.Value)
		vc.note("%T havocked", in)
		vc.vals[v] = vc.freshVal(st, v.Type(), "conv")
	default:
		if v, ok := in.(ssa.Value); ok {
			vc.note("instruction %T havocked", in)
			vc.vals[v] = vc.freshVal(st, v.Type(), "unk")
		} else {
			vc.unsupported("instruction %T", in)
		}
	}
}

func (vc *FnVC) nilCheck(st *State, pv ssa.Value, p *Val, in ssa.Instruction) {
	switch pv.(type) {
	case *ssa.Alloc, *ssa.FieldAddr, *ssa.IndexAddr, *ssa.Global, *ssa.MakeClosure, *ssa.FreeVar:
		return
	}
	if p.Addr != nil {
		return
	}
	if vc.fn.Signature.Recv() != nil && len(vc.fn.Params) > 0 && pv == ssa.Value(vc.fn.Params[0]) {
		return
	}
	vc.safety(st, "nil", vc.srcText(pv, in), smtNot(sx("=", p.S, "0")))
}

func (vc *FnVC) alloc(st *State, a *ssa.Alloc) *Val {
	elem := a.Type().(*types.Pointer).Elem()
	if isStruct(elem) {
		ref := vc.newRef(st, a.Comment)
		vc.storeStruct(st, elem, ref, vc.zeroVal(elem))
		if vc.ownedValue(a) {
			vc.owned = append(vc.owned, ref)
		}
		return &Val{T: a.Type(), S: ref}
	}
	s := sortOf(elem)
	if at, ok := elem.Underlying().(*types.Array); ok && isStruct(at.Elem()) {
		// array of structs: the elements are objects elem(base, i)
		base := vc.newRef(st, a.Comment)
		for i := int64(0); i < at.Len() && i < 16; i++ {
			vc.storeStruct(st, at.Elem(), vc.elemRef(at.Elem(), base, fmt.Sprint(i)), vc.zeroVal(at.Elem()))
		}
		return &Val{T: a.Type(), S: base, Addr: &Addr{Kind: "structarr", Base: base, Elem: at.Elem()}}
	}
	if s == "" {
		vc.note("alloc of %s havocked", elem)
		return vc.freshVal(st, a.Type(), "alloc")
	}
	if !a.Heap {
		key := fmt.Sprintf("L!%s!%s", a.Comment, a.Name())
		vc.key(key, s, "local")
		if vc.localKeys == nil {
			vc.localKeys = map[string]string{}
		}
		vc.localKeys[a.Name()] = key
		vc.set(st, key, zeroTerm(s))
		return &Val{T: a.Type(), S: "1", Addr: &Addr{Kind: "local", Key: key, Elem: elem}}
	}
	ref := vc.newRef(st, a.Comment)
	k := vc.cellKey(elem)
	vc.set(st, k.Name, sx("store", vc.get(st, k.Name), ref, zeroTerm(s)))
	return &Val{T: a.Type(), S: ref, Addr: &Addr{Kind: "cell", Key: k.Name, Obj: ref, Elem: elem}}
}

func (vc *FnVC) unop(st *State, u *ssa.UnOp) *Val {
	x := vc.val(st, u.X)
	switch u.Op {
	case token.MUL:
		vc.nilCheck(st, u.X, x, u)
		return vc.nameVal(u.Name(), vc.load(st, x))
	case token.NOT:
		return &Val{T: u.Type(), S: smtNot(x.S)}
	case token.SUB:
		if isFloat(u.Type()) {
			return &Val{T: u.Type(), S: sx("-", x.S)}
		}
		return &Val{T: u.Type(), S: wrapInt(u.Type(), sx("-", x.S))}
	case token.XOR:
		if isUnsigned(u.Type()) {
			return &Val{T: u.Type(), S: sx("-", pow2(intBits(u.Type())), "1", x.S)}
		}
		return &Val{T: u.Type(), S: sx("-", sx("-", x.S), "1")}
	case token.ARROW:
		vc.unsupported("channel receive")
	}
	return vc.freshVal(st, u.Type(), "unop")
}

func (vc *FnVC) fieldAddr(st *State, fa *ssa.FieldAddr) *Val {
	x := vc.val(st, fa.X)
	pt := fa.X.Type().Underlying().(*types.Pointer)
	structT := pt.Elem()
	u := structT.Underlying().(*types.Struct)
	f := u.Field(fa.Field)
	vc.nilCheck(st, fa.X, x, fa)
	if isStruct(f.Type()) {
		return &Val{T: fa.Type(), S: vc.embRef(structT, f.Name(), x.S)}
	}
	k := vc.fieldKey(structT, f)
	if k == nil {
		vc.note("address of field %s.%s of unsupported type", typeName(structT), f.Name())
		return vc.freshVal(st, fa.Type(), "fa")
	}
	return &Val{T: fa.Type(), S: "1", Addr: &Addr{Kind: "field", Key: k.Name, Obj: x.S, Elem: f.Type()}}
}

func (vc *FnVC) indexAddr(st *State, ia *ssa.IndexAddr) *Val {
	x := vc.val(st, ia.X)
	i := vc.val(st, ia.Index)
	switch t := ia.X.Type().Underlying().(type) {
	case *types.Slice:
		vc.safety(st, "index", vc.srcText(ia, ia), smtAnd(sx("<=", "0", i.S), sx("<", i.S, sx("s.len", x.S))))
		idx := sx("+", sx("s.off", x.S), i.S)
		if isStruct(t.Elem()) {
			return &Val{T: ia.Type(), S: vc.define("el", "Int", vc.elemRef(t.Elem(), sx("s.base", x.S), idx))}
		}
		k := vc.memKey(t.Elem())
		if k == nil {
			return vc.freshVal(st, ia.Type(), "ia")
		}
		return &Val{T: ia.Type(), S: "1", Addr: &Addr{Kind: "elem", Key: k.Name, Base: sx("s.base", x.S), Idx: idx, Elem: t.Elem()}}
	case *types.Pointer: // pointer to array
		at := t.Elem().Underlying().(*types.Array)
		if c, ok := constIntOf(ia.Index); !ok || c < 0 || c >= at.Len() {
			vc.safety(st, "index", vc.srcText(ia, ia), smtAnd(sx("<=", "0", i.S), sx("<", i.S, fmt.Sprint(at.Len()))))
		}
		if x.Addr != nil && x.Addr.Kind == "structarr" {
			return &Val{T: ia.Type(), S: vc.elemRef(at.Elem(), x.Addr.Base, i.S)}
		}
		pa := vc.addrOf(st, x)
		if pa == nil || sortOf(at.Elem()) == "" {
			vc.note("index into array of %s havocked", at.Elem())
			return vc.freshVal(st, ia.Type(), "ia")
		}
		return &Val{T: ia.Type(), S: "1", Addr: &Addr{Kind: "arrelem", Parent: pa, Idx: i.S, Elem: at.Elem()}}
	}
	return vc.freshVal(st, ia.Type(), "ia")
}

func (vc *FnVC) lookup(st *State, l *ssa.Lookup) *Val {
	x := vc.val(st, l.X)
	i := vc.val(st, l.Index)
	if isString(l.X.Type()) {
		vc.safety(st, "index", vc.srcText(l, l), smtAnd(sx("<=", "0", i.S), sx("<", i.S, sx("gs.len", x.S))))
		t := vc.define(l.Name(), "Int", sx("gs.at", x.S, i.S))
		vc.assume(st, smtAnd(sx("<=", "0", t), sx("<=", t, "255")))
		return &Val{T: l.Type(), S: t}
	}
	mt := l.X.Type().Underlying().(*types.Map)
	dom, val, _ := vc.mapKeys(mt)
	has := vc.define("has", "Bool", sx("select", sx("select", vc.get(st, dom.Name), x.S), vc.mapKeyTerm(st, mt, i)))
	has = smtAnd(smtNot(sx("=", x.S, "0")), has)
	raw := sx("select", sx("select", vc.get(st, val.Name), x.S), vc.mapKeyTerm(st, mt, i))
	var v *Val
	if isStruct(mt.Elem()) {
		v = vc.iteVal(has, vc.loadStruct(st, mt.Elem(), raw), vc.zeroVal(mt.Elem()))
	} else {
		s := sortOf(mt.Elem())
		term := vc.define(l.Name(), s, smtIte(has, raw, zeroTerm(s)))
		vc.assume(st, vc.typeFacts(st, mt.Elem(), term))
		v = &Val{T: mt.Elem(), S: term}
	}
	if l.CommaOk {
		return tuple(l.Type(), v, &Val{T: types.Typ[types.Bool], S: has})
	}
	return v
}

func (vc *FnVC) mapKeyTerm(st *State, mt *types.Map, k *Val) string {
	if k.S != "" {
		return k.S
	}
	if n, _, ok := structKeySort(mt.Key()); ok && k.Fields != nil {
		vc.mapKeys(mt)
		var args []string
		for _, f := range k.Order {
			args = append(args, k.Fields[f].S)
		}
		return "(mk" + n + " " + strings.Join(args, " ") + ")"
	}
	vc.note("map with struct key: key abstracted")
	return "0"
}

func (vc *FnVC) mapUpdate(st *State, mu *ssa.MapUpdate) {
	m := vc.val(st, mu.Map)
	k := vc.val(st, mu.Key)
	v := vc.val(st, mu.Value)
	mt := mu.Map.Type().Underlying().(*types.Map)
	vc.safety(st, "nil-map", vc.srcText(mu.Map, mu), smtNot(sx("=", m.S, "0")))
	dom, val, ln := vc.mapKeys(mt)
	kt := vc.mapKeyTerm(st, mt, k)
	d := vc.get(st, dom.Name)
	had := sx("select", sx("select", d, m.S), kt)
	l := vc.get(st, ln.Name)
	vc.set(st, ln.Name, sx("store", l, m.S, sx("+", sx("select", l, m.S), smtIte(had, "0", "1"))))
	vc.set(st, dom.Name, sx("store", d, m.S, sx("store", sx("select", d, m.S), kt, "true")))
	var vt string
	if isStruct(mt.Elem()) {
		ref := vc.newRef(st, "mapval")
		vc.storeStruct(st, mt.Elem(), ref, v)
		vt = ref
	} else {
		vt = v.S
	}
	vv := vc.get(st, val.Name)
	vc.set(st, val.Name, sx("store", vv, m.S, sx("store", sx("select", vv, m.S), kt, vt)))
}

func (vc *FnVC) makeMap(st *State, mm *ssa.MakeMap) *Val {
	mt := mm.Type().Underlying().(*types.Map)
	dom, _, ln := vc.mapKeys(mt)
	ref := vc.newRef(st, "map")
	_, _, _, ks, _ := mapKeyNames(mt)
	d := vc.get(st, dom.Name)
	vc.set(st, dom.Name, sx("store", d, ref, "((as const (Array "+ks+" Bool)) false)"))
	vc.set(st, ln.Name, sx("store", vc.get(st, ln.Name), ref, "0"))
	return &Val{T: mm.Type(), S: ref}
}

func (vc *FnVC) makeSlice(st *State, ms *ssa.MakeSlice) *Val {
	l := vc.val(st, ms.Len)
	c := vc.val(st, ms.Cap)
	vc.safety(st, "neg-make", vc.srcText(ms, ms), smtAnd(sx("<=", "0", l.S), sx("<=", l.S, c.S)))
	base := vc.newRef(st, "mk")
	elem := ms.Type().Underlying().(*types.Slice).Elem()
	if k := vc.memKey(elem); k != nil {
		es := sortOf(elem)
		vc.set(st, k.Name, sx("store", vc.get(st, k.Name), base, "((as const (Array Int "+es+")) "+zeroTerm(es)+")"))
	}
	return &Val{T: ms.Type(), S: vc.define(ms.Name(), "Slice", sx("mkslice", base, "0", l.S, c.S))}
}

func (vc *FnVC) sliceOp(st *State, s *ssa.Slice) *Val {
	x := vc.val(st, s.X)
	var lo, hi, mx string
	lo = "0"
	if s.Low != nil {
		lo = vc.val(st, s.Low).S
	}
	what := vc.srcText(s, s)
	switch t := s.X.Type().Underlying().(type) {
	case *types.Basic: // string
		hi = sx("gs.len", x.S)
		if s.High != nil {
			hi = vc.val(st, s.High).S
		}
		vc.safety(st, "slice", what, smtAnd(sx("<=", "0", lo), sx("<=", lo, hi), sx("<=", hi, sx("gs.len", x.S))))
		if lo == "0" && s.High == nil {
			return x
		}
		vc.usedSub = true
		r := vc.define(s.Name(), "Str", sx("gs.sub", x.S, lo, hi))
		vc.assume(st, sx("=", sx("gs.len", r), sx("-", hi, lo)))
		return &Val{T: s.Type(), S: r}
	case *types.Slice:
		hi = sx("s.len", x.S)
		if s.High != nil {
			hi = vc.val(st, s.High).S
		}
		mx = sx("s.cap", x.S)
		if s.Max != nil {
			mx = vc.val(st, s.Max).S
		}
		vc.safety(st, "slice", what, smtAnd(sx("<=", "0", lo), sx("<=", lo, hi), sx("<=", hi, mx), sx("<=", mx, sx("s.cap", x.S))))
		return &Val{T: s.Type(), S: vc.define(s.Name(), "Slice", sx("mkslice", sx("s.base", x.S), sx("+", sx("s.off", x.S), lo), sx("-", hi, lo), sx("-", mx, lo)))}
	case *types.Pointer: // pointer to array
		at := t.Elem().Underlying().(*types.Array)
		n := fmt.Sprint(at.Len())
		hi = n
		if s.High != nil {
			hi = vc.val(st, s.High).S
		}
		if s.Low != nil || s.High != nil {
			vc.safety(st, "slice", what, smtAnd(sx("<=", "0", lo), sx("<=", lo, hi), sx("<=", hi, n)))
		}
		if x.Addr != nil && x.Addr.Kind == "structarr" {
			return &Val{T: s.Type(), S: vc.define(s.Name(), "Slice", sx("mkslice", x.Addr.Base, lo, sx("-", hi, lo), sx("-", n, lo)))}
		}
		if pa := vc.addrOf(st, x); pa != nil && sortOf(at.Elem()) != "" {
			// materialise the array as a fresh backing store holding its current contents
			// (later writes through the array variable are not reflected in the slice: noted)
			var base string
			if pa.Kind != "local" && vc.entry != nil {
				// the array of a package-level variable / a field existed before this activation: its backing store is
				// not a fresh object (a slice of it handed out is reachable by, and writable through, later calls)
				base = vc.freshName("garr")
				vc.declare(base, "Int")
				vc.assume(st, smtAnd(sx("<", "0", base), sx("<=", sx("ref.root", base), vc.get(vc.entry, "$alloc"))))
			} else {
				base = vc.newRef(st, "arr")
			}
			mk := vc.memKey(at.Elem())
			vc.set(st, mk.Name, sx("store", vc.get(st, mk.Name), base, vc.loadAddr(st, pa)))
			if pa.Kind != "local" {
				vc.note("slice of a non-local array: aliasing with the array variable is not modelled")
			}
			return &Val{T: s.Type(), S: vc.define(s.Name(), "Slice", sx("mkslice", base, lo, sx("-", hi, lo), sx("-", n, lo)))}
		}
		vc.note("slice of array: backing storage abstracted")
		r := vc.freshVal(st, s.Type(), "arrslice")
		vc.assume(st, smtAnd(sx("=", sx("s.len", r.S), sx("-", hi, lo)), sx(">", sx("s.base", r.S), "0")))
		return r
	}
	return vc.freshVal(st, s.Type(), "slice")
}

// ---------- range ----------

func (vc *FnVC) rangeInit(st *State, r *ssa.Range) *Val {
	x := vc.val(st, r.X)
	key := fmt.Sprintf("IT!%s", r.Name())
	if isString(r.X.Type()) {
		vc.key(key, "Int", "iter")
		vc.set(st, key, "0")
	} else {
		mt := r.X.Type().Underlying().(*types.Map)
		_, _, _, ks, _ := mapKeyNames(mt)
		vc.key(key, "(Array "+ks+" Bool)", "iter")
		vc.set(st, key, "((as const (Array "+ks+" Bool)) false)")
	}
	return &Val{T: r.Type(), S: x.S, Addr: &Addr{Kind: "local", Key: key}}
}

func (vc *FnVC) next(st *State, n *ssa.Next) *Val {
	it := vc.val(st, n.Iter)
	rng := n.Iter.(*ssa.Range)
	key := it.Addr.Key
	tt := n.Type().(*types.Tuple)
	if n.IsString {
		pos := vc.get(st, key)
		s := it.S
		ok := vc.define("ok", "Bool", sx("<", pos, sx("gs.len", s)))
		vc.declareFun("gs.runeat", []string{"Str", "Int"}, "Int")
		vc.declareFun("gs.runelen", []string{"Str", "Int"}, "Int")
		rl := sx("gs.runelen", s, pos)
		vc.assume(st, smtImp(ok, smtAnd(sx("<=", "1", rl), sx("<=", rl, "4"), sx("<=", sx("+", pos, rl), sx("gs.len", s)),
			sx("<=", "0", sx("gs.runeat", s, pos)), sx("<=", sx("gs.runeat", s, pos), "1114111"),
			smtImp(sx("<", sx("gs.at", s, pos), "128"), smtAnd(sx("=", rl, "1"), sx("=", sx("gs.runeat", s, pos), sx("gs.at", s, pos)))),
			// and conversely: a rune below utf8.RuneSelf is only ever decoded from that single byte
			smtImp(sx("<", sx("gs.runeat", s, pos), "128"), smtAnd(sx("=", rl, "1"), sx("=", sx("gs.runeat", s, pos), sx("gs.at", s, pos)))))))
		vc.assume(st, sx("<=", "0", pos))
		vc.set(st, key, smtIte(ok, sx("+", pos, rl), pos))
		return tuple(tt, &Val{T: types.Typ[types.Bool], S: ok}, &Val{T: tt.At(1).Type(), S: pos}, &Val{T: tt.At(2).Type(), S: vc.define("rune", "Int", sx("gs.runeat", s, pos))})
	}
	mt := rng.X.Type().Underlying().(*types.Map)
	dom, val, _ := vc.mapKeys(mt)
	_, _, _, ks, _ := mapKeyNames(mt)
	visited := vc.get(st, key)
	d := sx("select", vc.get(st, dom.Name), it.S)
	k := vc.freshName("k")
	vc.declare(k, ks)
	okc := vc.freshName("ok")
	vc.declare(okc, "Bool")
	vc.assume(st, smtAnd(
		smtImp(okc, smtAnd(smtNot(sx("=", it.S, "0")), sx("select", d, k), smtNot(sx("select", visited, k)))),
		smtImp(smtNot(okc), smtOr(sx("=", it.S, "0"), fmt.Sprintf("(forall ((q %s)) (! (=> (select %s q) (select %s q)) :pattern ((select %s q))))", ks, d, visited, visited)))))
	vc.set(st, key, smtIte(okc, sx("store", visited, k, "true"), visited))
	kv := &Val{T: mt.Key(), S: k}
	if n, _, ok := structKeySort(mt.Key()); ok {
		u := mt.Key().Underlying().(*types.Struct)
		kv = &Val{T: mt.Key(), Fields: map[string]*Val{}}
		for i := 0; i < u.NumFields(); i++ {
			f := u.Field(i)
			kv.Fields[f.Name()] = &Val{T: f.Type(), S: sx(n+"."+f.Name(), k)}
			kv.Order = append(kv.Order, f.Name())
		}
	} else {
		vc.assume(st, vc.typeFacts(st, mt.Key(), k))
	}
	raw := sx("select", sx("select", vc.get(st, val.Name), it.S), k)
	var vv *Val
	if isStruct(mt.Elem()) {
		vv = vc.loadStruct(st, mt.Elem(), raw)
	} else {
		term := vc.define("mv", sortOf(mt.Elem()), raw)
		vc.assume(st, vc.typeFacts(st, mt.Elem(), term))
		vv = &Val{T: mt.Elem(), S: term}
	}
	return tuple(tt, &Val{T: types.Typ[types.Bool], S: okc}, kv, vv)
}

// ---------- defers ----------

func (vc *FnVC) runDefers(st *State, rd *ssa.RunDefers) {
	for i := len(vc.deferred) - 1; i >= 0; i-- {
		d := vc.deferred[i]
		if !reaches(d.Block(), rd.Block()) {
			continue // no path from the defer statement to this return: it was never registered here
		}
		if !d.Block().Dominates(rd.Block()) {
			vc.note("conditional defer approximated by havoc of the callee's footprint")
			ws, all := vc.G.callWrites(vc.fn, d.Common())
			vc.havocSet(st, ws, all)
			continue
		}
		for _, li := range vc.loops {
			if li.blocks[d.Block()] {
				vc.note("defer in loop approximated")
			}
		}
		vc.curInstr = d
		vc.call(st, d.Common(), nil, nil)
	}
}

func (vc *FnVC) havocSet(st *State, ws map[string]bool, all bool) {
	ws = copySet(ws)
	vc.expandPtrKeys(ws)
	for k := range ws {
		if strings.HasPrefix(k, "?") || strings.HasPrefix(k, "IT!") {
			delete(ws, k)
		}
	}
	if all {
		for k := range vc.keys {
			if vc.keys[k].Kind == "local" || vc.keys[k].Kind == "iter" {
				continue
			}
			ws[k] = true
		}
	}
	pre := vc.allocTerm(st)
	if all {
		vc.havocAll(st)
	}
	for _, k := range sortedKeys(ws) {
		if !vc.ensureKey(k) {
			continue
		}
		old := vc.get(st, k)
		vc.havocKey(st, k)
		// objects allocated by this function whose address never left it cannot be touched by the callee
		if ki := vc.keys[k]; ki != nil && strings.HasPrefix(ki.Sort, "(Array Int ") && !vc.inLoopHavoc {
			for _, o := range vc.owned {
				vc.assume(st, sx("=", sx("select", vc.get(st, k), o), sx("select", old, o)))
			}
		}
	}
	if ws["$alloc"] || all {
		if !ws["$alloc"] {
			vc.havocKey(st, "$alloc")
		}
		vc.assume(st, sx(">=", vc.get(st, "$alloc"), pre))
	}
	for _, k := range sortedKeys(ws) {
		if vc.keys[k] != nil && k != "$alloc" {
			vc.assume(st, vc.wfHeap(st, k))
		}
	}
}

// frameCheck: every state key changed by the function is covered by its modifies clause.
func (vc *FnVC) frameCheck(st *State) {
	env := vc.envAt(vc.entry, nil)
	allowed := map[string][]string{} // key -> allowed refs ("*" = whole key)
	for _, it := range vc.unit.Modifies {
		k, ref, err := vc.modItem(env, it)
		if err != nil {
			vc.contractError("modifies %q: %v", it, err)
			continue
		}
		allowed[k] = append(allowed[k], ref)
		if strings.HasPrefix(k, "MD!") {
			allowed["MV!"+k[3:]] = append(allowed["MV!"+k[3:]], ref)
			allowed["ML!"+k[3:]] = append(allowed["ML!"+k[3:]], ref)
		}
	}
	alloc0 := entrySym("$alloc")
	for _, k := range sortedKeys(st.m) {
		ki := vc.keys[k]
		if ki == nil || ki.Kind == "local" || ki.Kind == "iter" || ki.Kind == "alloc" || strings.HasPrefix(k, "W!") || strings.HasPrefix(k, "CALLS") {
			continue
		}
		cur := st.m[k]
		if cur == entrySym(k) {
			continue
		}
		refs := allowed[k]
		whole := false
		for _, r := range refs {
			if r == "*" {
				whole = true
			}
		}
		if whole {
			continue
		}
		var goal string
		if strings.HasPrefix(ki.Sort, "(Array Int ") {
			var ex []string
			for _, r := range refs {
				ex = append(ex, smtNot(sx("=", "r", r)))
			}
			goal = fmt.Sprintf("(forall ((r Int)) (=> %s (= (select %s r) (select %s r))))",
				smtAnd(append(ex, sx("<=", sx("ref.root", "r"), alloc0))...), cur, entrySym(k))
		} else {
			goal = sx("=", cur, entrySym(k))
		}
		vc.curInstr = nil
		vc.oblige(st, "modifies", shortKey(k), goal, "frame: only the declared locations of "+k+" change")
	}
}

// enumChecks generates the obligation families that are enumerated from go/types: `pins` and `visits`.
func (vc *FnVC) enumChecks(st *State, env *Env) {
	structOf := func(v *Val) (types.Type, *types.Struct) {
		t := v.T
		if p, ok := t.Underlying().(*types.Pointer); ok {
			t = p.Elem()
		}
		u, _ := t.Underlying().(*types.Struct)
		return t, u
	}
	for _, ps := range vc.unit.Pins {
		v, err := vc.evalTerm(env, ps.E)
		if err != nil {
			vc.contractError("pins %s: %v", ps.Obj, err)
			continue
		}
		t, u := structOf(v)
		if u == nil {
			vc.contractError("pins %s: not a struct", ps.Obj)
			continue
		}
		for i := 0; i < u.NumFields(); i++ {
			f := u.Field(i)
			if ps.Except[f.Name()] {
				continue
			}
			var goal string
			if isStruct(f.Type()) {
				// embedded struct value: every leaf assigned
				id := func(x string) string { return x }
				var gs []string
				for _, lf := range vc.leafFields(f.Type(), id, id) {
					if vc.keys["W!"+lf.key] == nil {
						gs = append(gs, "false")
						continue
					}
					gs = append(gs, sx("select", vc.get(st, "W!"+lf.key), lf.ref(vc.embRef(t, f.Name(), v.S))))
				}
				goal = smtAnd(gs...)
			} else {
				k := vc.fieldKey(t, f)
				if k == nil {
					continue
				}
				if vc.keys["W!"+k.Name] == nil {
					goal = "false"
				} else {
					goal = sx("select", vc.get(st, "W!"+k.Name), v.S)
				}
			}
			vc.oblige(st, "pins", f.Name(), goal, "field "+f.Name()+" of "+ps.Obj+" is assigned on every path (no value survives from a previous use of the object)")
		}
	}
	for _, vs := range vc.unit.Visits {
		if !vc.isLastReturn() {
			break // early exits (the callback returned false) have nothing to show
		}
		v, err := vc.evalTerm(env, vs.E)
		if err != nil {
			vc.contractError("visits %s: %v", vs.Obj, err)
			continue
		}
		t, u := structOf(v)
		if u == nil {
			vc.contractError("visits %s: not a struct", vs.Obj)
			continue
		}
		ck := "CALLS!" + vs.Func
		rk := "CALLSOK!" + vs.Func
		for i := 0; i < u.NumFields(); i++ {
			f := u.Field(i)
			if vs.Except[f.Name()] {
				continue
			}
			if _, isPtr := f.Type().Underlying().(*types.Pointer); !isPtr {
				continue
			}
			k := vc.fieldKey(t, f)
			goal := "false"
			if vc.keys[ck] != nil && k != nil {
				goal = smtImp(vc.get(st, rk), sx("select", vc.get(st, ck), sx("select", vc.get(st, k.Name), v.S)))
			}
			vc.oblige(st, "visits", f.Name(), goal, "field "+f.Name()+" of "+vs.Obj+" is passed to "+vs.Func+" (when every call returns true)")
		}
	}
}

// isLastReturn: the current instruction is the Return with the highest source position.
func (vc *FnVC) isLastReturn() bool {
	cur, ok := vc.curInstr.(*ssa.Return)
	if !ok {
		return false
	}
	if !cur.Pos().IsValid() {
		return true // the implicit return at the end of the function body
	}
	for _, b := range vc.fn.Blocks {
		for _, in := range b.Instrs {
			if r, isR := in.(*ssa.Return); isR && r != cur && (!r.Pos().IsValid() || r.Pos() > cur.Pos()) {
				return false
			}
		}
	}
	return true
}

// phiAlias gives the compiler-generated loop variables a name usable in invariants:
// range-over-slice index -> rangeindex, range-over-int counter (for i := range n) -> rangeiter.
func phiAlias(comment string) string {
	if comment == "rangeint.iter" {
		return "rangeiter"
	}
	return comment
}

// ownedValue: v is a pointer to an object allocated by this function whose address is only dereferenced here or
// handed to library methods with (trusted) contracts or pure library functions -- so no other code can reach it.
func (vc *FnVC) ownedValue(v ssa.Value) bool {
	refs := v.Referrers()
	if refs == nil {
		return false
	}
	for _, r := range *refs {
		switch x := r.(type) {
		case *ssa.DebugRef, *ssa.FieldAddr:
		case *ssa.UnOp:
		case *ssa.Store:
			if x.Val == v {
				return false // the pointer itself is stored somewhere
			}
		case ssa.CallInstruction:
			c := x.Common()
			callee := c.StaticCallee()
			if callee == nil || c.IsInvoke() {
				return false
			}
			u := vc.G.unitFor(callee)
			if !(u != nil && u.Trusted) && !vc.G.isPureLib(callee) {
				return false
			}
		default:
			return false
		}
	}
	return true
}

// preservesCheck: `preserves T, ...` -- no field of an object of struct type T that existed when the function was
// entered has changed when it returns (shared configuration objects are not written at transaction time).
func (vc *FnVC) preservesCheck(st *State, env *Env) {
	if len(vc.unit.Preserves) == 0 {
		return
	}
	alloc0 := entrySym("$alloc")
	id := func(x string) string { return x }
	for _, tn := range vc.unit.Preserves {
		t, err := env.parseType(tn)
		if err != nil {
			vc.contractError("preserves %s: %v", tn, err)
			continue
		}
		if _, ok := t.Underlying().(*types.Struct); !ok {
			vc.contractError("preserves %s: not a struct type", tn)
			continue
		}
		seen := map[string]bool{}
		for _, lf := range vc.leafFields(t, id, id) {
			if seen[lf.key] {
				continue
			}
			seen[lf.key] = true
			cur, touched := st.m[lf.key]
			if !touched || cur == entrySym(lf.key) {
				continue
			}
			goal := fmt.Sprintf("(forall ((r Int)) (=> (<= (ref.root r) %s) (= (select %s r) (select %s r))))", alloc0, cur, entrySym(lf.key))
			vc.curInstr = nil
			vc.oblige(st, "preserves", tn+"/"+shortKey(lf.key), goal, "no pre-existing "+tn+" object is modified (field heap "+lf.key+")")
		}
	}
}

// reaches reports whether block to can be reached from block from in the control-flow graph.
func reaches(from, to *ssa.BasicBlock) bool {
	seen := map[*ssa.BasicBlock]bool{}
	stack := []*ssa.BasicBlock{from}
	for len(stack) > 0 {
		b := stack[len(stack)-1]
		stack = stack[:len(stack)-1]
		if b == to {
			return true
		}
		if seen[b] {
			continue
		}
		seen[b] = true
		stack = append(stack, b.Succs...)
	}
	return false
}
