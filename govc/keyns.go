package main

import (
	"fmt"
	"go/constant"
	"go/token"
	"go/types"
	"sort"
	"strings"

	"golang.org/x/tools/go/ssa"
)

// Memoize-key obligations (property C13), generated from the real call sites of the process-wide build cache.
//
// Every function that contains a call to memoizeDo / Memoizer.Do must declare, in its contract unit, the value
// class of the keys it builds:   //@ memoize CLASS
// For every site the generator builds the key and the closure's inputs as terms over the site's leaves
// (parameters, option fields, ...) from the SSA of the real code and emits
//   * memo-keyval/<site>: the key determines the closure's inputs (relational: two copies of the leaves with equal
//     keys have equal inputs) -- so a cached value is what the builder would have built;
//   * memo-ns/<siteA>~<siteB> for sites of different classes: the two key sets are disjoint -- so a site never
//     receives a value built by another kind of builder (the type assertions behind the cache cannot fail).
// Sites of the same class must have the same builder function of the key; this is checked syntactically
// (same callee applied to the key) for the class "re" and is otherwise part of the class declaration.

type memoSite struct {
	fn      *ssa.Function
	unit    *Unit
	class   string
	call    ssa.CallInstruction
	key     ssa.Value
	closure *ssa.MakeClosure
	ord     int
}

type termCtx struct {
	extra     []string
	cellLimit map[*ssa.Alloc]int
	suffix    string
	decls     map[string]string // symbol -> declaration
	memo      map[ssa.Value]string
	leaves    []string
	fn        *ssa.Function
	g         *Global
}

func smtStrLit(s string) string {
	var b strings.Builder
	b.WriteByte('"')
	for i := 0; i < len(s); i++ {
		c := s[i]
		switch {
		case c == '"':
			b.WriteString("\"\"")
		case c >= 32 && c < 127 && c != '\\':
			b.WriteByte(c)
		default:
			fmt.Fprintf(&b, "\\u{%x}", c)
		}
	}
	b.WriteByte('"')
	return b.String()
}

func nsSort(t types.Type) string {
	if isString(t) {
		return "String"
	}
	if isBool(t) {
		return "Bool"
	}
	if isInteger(t) {
		return "Int"
	}
	return "U"
}

func (c *termCtx) leaf(name string, t types.Type) string {
	sym := "L." + sanitize(name) + c.suffix
	if _, ok := c.decls[sym]; !ok {
		c.decls[sym] = fmt.Sprintf("(declare-const %s %s)", sym, nsSort(t))
		c.leaves = append(c.leaves, sym)
	}
	return sym
}

func (c *termCtx) ufun(name string, args []string, argSorts []string, ret string) string {
	sym := "F." + sanitize(name)
	if _, ok := c.decls[sym]; !ok {
		c.decls[sym] = fmt.Sprintf("(declare-fun %s (%s) %s)", sym, strings.Join(argSorts, " "), ret)
	}
	if len(args) == 0 {
		return sym
	}
	return "(" + sym + " " + strings.Join(args, " ") + ")"
}

// term translates an SSA value into an SMT term over leaves (native string theory for strings).
func (c *termCtx) term(v ssa.Value, depth int) string {
	if t, ok := c.memo[v]; ok {
		return t
	}
	t := c.term0(v, depth)
	c.memo[v] = t
	return t
}

func (c *termCtx) term0(v ssa.Value, depth int) string {
	if depth > 40 {
		return c.leaf("deep."+v.Name(), v.Type())
	}
	switch x := v.(type) {
	case *ssa.Const:
		if x.Value == nil {
			return c.ufun("nil."+nsSort(x.Type()), nil, nil, nsSort(x.Type()))
		}
		switch x.Value.Kind() {
		case constant.String:
			return smtStrLit(constant.StringVal(x.Value))
		case constant.Bool:
			return fmt.Sprint(constant.BoolVal(x.Value))
		case constant.Int:
			if isInteger(x.Type()) {
				return bigLitStr(x.Value.ExactString())
			}
		}
		return c.ufun("const."+x.Value.ExactString(), nil, nil, nsSort(x.Type()))
	case *ssa.Parameter:
		return c.leaf("param."+x.Name(), x.Type())
	case *ssa.FreeVar:
		return c.leaf("free."+x.Name(), x.Type())
	case *ssa.Global:
		return c.leaf("global."+x.Name(), x.Type())
	case *ssa.Function:
		return c.ufun("fn."+x.String(), nil, nil, "U")
	case *ssa.Field:
		st := x.X.Type().Underlying().(*types.Struct)
		base := c.term(x.X, depth+1)
		return c.ufun("field."+st.Field(x.Field).Name(), []string{base}, []string{nsSort(x.X.Type())}, nsSort(x.Type()))
	case *ssa.FieldAddr:
		st := x.X.Type().Underlying().(*types.Pointer).Elem().Underlying().(*types.Struct)
		base := c.term(x.X, depth+1)
		return c.ufun("fieldaddr."+st.Field(x.Field).Name(), []string{base}, []string{nsSort(x.X.Type())}, "U")
	case *ssa.UnOp:
		if x.Op == token.MUL {
			// a load from a local: one of the values assigned to it (in program order; an assignment that reads
			// the variable itself sees the earlier assignments only)
			if al, ok := x.X.(*ssa.Alloc); ok {
				if t := c.cellTerm(al, depth); t != "" {
					return t
				}
			}
			// a load: a function of the address (heap state is shared by both copies: configuration data)
			a := c.term(x.X, depth+1)
			return c.ufun("load."+nsSort(x.Type()), []string{a}, []string{nsSort(x.X.Type())}, nsSort(x.Type()))
		}
		if x.Op == token.NOT {
			return "(not " + c.term(x.X, depth+1) + ")"
		}
	case *ssa.BinOp:
		if x.Op == token.ADD && isString(x.Type()) {
			return "(str.++ " + c.term(x.X, depth+1) + " " + c.term(x.Y, depth+1) + ")"
		}
		a, b := c.term(x.X, depth+1), c.term(x.Y, depth+1)
		return c.ufun("op."+x.Op.String()+"."+nsSort(x.X.Type()), []string{a, b}, []string{nsSort(x.X.Type()), nsSort(x.Y.Type())}, nsSort(x.Type()))
	case *ssa.Call:
		if callee := x.Common().StaticCallee(); callee != nil {
			if callee.Name() == "md5Hash" && len(x.Common().Args) == 1 {
				// a cryptographic digest is treated as collision free (assumption, listed in evidence)
				as := nsSort(x.Common().Args[0].Type())
				at := c.term(x.Common().Args[0], depth+1)
				d := c.ufun("digestOf."+as, []string{at}, []string{as}, "String")
				inv := c.ufun("digestInv."+as, []string{d}, []string{"String"}, as)
				c.extra = append(c.extra, "(assert (= "+inv+" "+at+"))")
				return d
			}
			if callee.String() == "fmt.Sprintf" {
				if t := c.sprintf(x, depth); t != "" {
					return t
				}
			}
			if c.g.isPureLib(callee) || callee.Pkg != nil && c.g.inRepo(callee.Pkg.Pkg) && c.g.looksPure(callee) || isBuilderLib(callee) {
				var args, sorts []string
				for _, a := range x.Common().Args {
					args = append(args, c.term(a, depth+1))
					sorts = append(sorts, nsSort(a.Type()))
				}
				rt := x.Type()
				if tt, ok := rt.(*types.Tuple); ok {
					_ = tt
					return c.ufun("call."+callee.String(), args, sorts, "U")
				}
				return c.ufun("call."+callee.String(), args, sorts, nsSort(rt))
			}
		}
		if b, ok := x.Common().Value.(*ssa.Builtin); ok && (b.Name() == "len") {
			return c.ufun("len."+nsSort(x.Common().Args[0].Type()), []string{c.term(x.Common().Args[0], depth+1)}, []string{nsSort(x.Common().Args[0].Type())}, "Int")
		}
	case *ssa.Extract:
		t := c.term(x.Tuple, depth+1)
		return c.ufun(fmt.Sprintf("proj%d.%s", x.Index, nsSort(x.Type())), []string{t}, []string{"U"}, nsSort(x.Type()))
	case *ssa.Lookup:
		a, b := c.term(x.X, depth+1), c.term(x.Index, depth+1)
		rs := nsSort(x.Type())
		if _, isT := x.Type().(*types.Tuple); isT {
			rs = "U"
		}
		return c.ufun("lookup."+nsSort(x.X.Type())+"."+nsSort(x.Index.Type())+"."+rs, []string{a, b}, []string{nsSort(x.X.Type()), nsSort(x.Index.Type())}, rs)
	case *ssa.ChangeType:
		if nsSort(x.Type()) == nsSort(x.X.Type()) {
			return c.term(x.X, depth+1)
		}
	case *ssa.Convert:
		if nsSort(x.Type()) == nsSort(x.X.Type()) {
			return c.term(x.X, depth+1)
		}
		return c.ufun("conv."+nsSort(x.X.Type())+"."+nsSort(x.Type()), []string{c.term(x.X, depth+1)}, []string{nsSort(x.X.Type())}, nsSort(x.Type()))
	case *ssa.MakeInterface:
		return c.ufun("box."+nsSort(x.X.Type()), []string{c.term(x.X, depth+1)}, []string{nsSort(x.X.Type())}, "U")
	case *ssa.Slice:
		if x.Low == nil && x.High == nil {
			return c.term(x.X, depth+1)
		}
	case *ssa.Alloc:
		// a local whose contents we do not track: identified by the values stored into it if they are simple
		var parts, sorts []string
		for _, ref := range *x.Referrers() {
			if st, ok := ref.(*ssa.Store); ok && st.Addr == x {
				parts = append(parts, c.term(st.Val, depth+1))
				sorts = append(sorts, nsSort(st.Val.Type()))
			}
			// a struct literal: the values stored into its fields
			if fa, ok := ref.(*ssa.FieldAddr); ok {
				for _, r2 := range *fa.Referrers() {
					if st, ok := r2.(*ssa.Store); ok && st.Addr == fa {
						parts = append(parts, c.term(st.Val, depth+1))
						sorts = append(sorts, nsSort(st.Val.Type()))
					}
				}
			}
		}
		if len(parts) > 0 {
			return c.ufun("cell."+fmt.Sprint(len(parts)), parts, sorts, "U")
		}
	case *ssa.Phi:
		// joins: an unknown choice between the incoming terms -- a fresh leaf (conservative: differs between copies)
	}
	return c.leaf("opaque."+c.fn.Name()+"."+v.Name(), v.Type())
}

func allocStores(al *ssa.Alloc) []*ssa.Store {
	var stores []*ssa.Store
	for _, ref := range *al.Referrers() {
		if st, ok := ref.(*ssa.Store); ok && st.Addr == al {
			stores = append(stores, st)
		}
	}
	pos := func(s *ssa.Store) (int, int) {
		for i, in := range s.Block().Instrs {
			if in == s {
				return s.Block().Index, i
			}
		}
		return s.Block().Index, 0
	}
	sort.Slice(stores, func(i, j int) bool {
		bi, ii := pos(stores[i])
		bj, ij := pos(stores[j])
		if bi != bj {
			return bi < bj
		}
		return ii < ij
	})
	return stores
}

func (c *termCtx) cellTerm(al *ssa.Alloc, depth int) string {
	stores := allocStores(al)
	if len(stores) == 0 || len(stores) > 4 {
		return ""
	}
	if c.cellLimit == nil {
		c.cellLimit = map[*ssa.Alloc]int{}
	}
	upto := len(stores)
	if lim, ok := c.cellLimit[al]; ok {
		upto = lim
	}
	if upto == 0 {
		return c.leaf("uninit."+al.Name(), al.Type().(*types.Pointer).Elem())
	}
	val := func(i int) string {
		saved, had := c.cellLimit[al]
		c.cellLimit[al] = i
		// do not memoise terms computed under a limit
		savedMemo := c.memo
		c.memo = map[ssa.Value]string{}
		t := c.term(stores[i].Val, depth+1)
		c.memo = savedMemo
		if had {
			c.cellLimit[al] = saved
		} else {
			delete(c.cellLimit, al)
		}
		return t
	}
	if upto == 1 {
		return val(0)
	}
	sel := c.leaf("choice."+al.Name(), types.Typ[types.Int])
	t := val(upto - 1)
	for i := upto - 2; i >= 0; i-- {
		t = fmt.Sprintf("(ite (= %s %d) %s %s)", sel, i, val(i), t)
	}
	return t
}

func isBuilderLib(fn *ssa.Function) bool {
	if fn.Pkg == nil {
		return false
	}
	p := fn.Pkg.Pkg.Path()
	return strings.Contains(p, "aho-corasick") || strings.Contains(p, "binaryregexp") || p == "regexp/syntax"
}

// looksPure: an in-repo helper without stores to pre-existing state (its inferred write set has no heap keys).
func (g *Global) looksPure(fn *ssa.Function) bool {
	ws, all := g.fnWrites(fn, fn.Pkg.Pkg)
	if all {
		return false
	}
	for k := range ws {
		if k != "$alloc" && !strings.HasPrefix(k, "?") {
			return false
		}
	}
	return true
}

func (c *termCtx) sprintf(call *ssa.Call, depth int) string {
	args := call.Common().Args
	if len(args) < 1 {
		return ""
	}
	fc, ok := args[0].(*ssa.Const)
	if !ok || fc.Value == nil || fc.Value.Kind() != constant.String {
		return ""
	}
	format := constant.StringVal(fc.Value)
	// variadic args arrive as a slice of an array alloc: collect the stored interface values in index order
	var vals []ssa.Value
	if len(args) == 2 {
		if sl, ok := args[1].(*ssa.Slice); ok {
			if al, ok := sl.X.(*ssa.Alloc); ok {
				byIdx := map[int64]ssa.Value{}
				for _, ref := range *al.Referrers() {
					if ia, ok := ref.(*ssa.IndexAddr); ok {
						idx, _ := constIntOf(ia.Index)
						for _, r2 := range *ia.Referrers() {
							if st, ok := r2.(*ssa.Store); ok {
								v := st.Val
								if mi, ok := v.(*ssa.MakeInterface); ok {
									v = mi.X
								}
								byIdx[idx] = v
							}
						}
					}
				}
				for i := int64(0); i < int64(len(byIdx)); i++ {
					vals = append(vals, byIdx[i])
				}
			}
		}
	}
	var parts []string
	lit := ""
	ai := 0
	for i := 0; i < len(format); i++ {
		if format[i] == '%' && i+1 < len(format) {
			verb := format[i+1]
			i++
			if verb == '%' {
				lit += "%"
				continue
			}
			if lit != "" {
				parts = append(parts, smtStrLit(lit))
				lit = ""
			}
			if ai >= len(vals) {
				return ""
			}
			v := vals[ai]
			ai++
			t := c.term(v, depth+1)
			switch {
			case isString(v.Type()) && (verb == 's' || verb == 'v'):
				parts = append(parts, t)
			case isBool(v.Type()) && (verb == 'v' || verb == 't'):
				parts = append(parts, "(ite "+t+" \"true\" \"false\")")
			default:
				parts = append(parts, c.ufun("fmt."+string(verb)+"."+nsSort(v.Type()), []string{t}, []string{nsSort(v.Type())}, "String"))
			}
			continue
		}
		lit += string(format[i])
	}
	if lit != "" {
		parts = append(parts, smtStrLit(lit))
	}
	if len(parts) == 0 {
		return "\"\""
	}
	if len(parts) == 1 {
		return parts[0]
	}
	return "(str.++ " + strings.Join(parts, " ") + ")"
}

func (c *termCtx) script() string {
	var ds []string
	for _, d := range c.decls {
		ds = append(ds, d)
	}
	sort.Strings(ds)
	return strings.Join(ds, "\n")
}

// findMemoSites locates the cache call sites in the repository.
func (g *Global) findMemoSites() []*memoSite {
	var sites []*memoSite
	for key, fn := range g.fnByKey {
		if fn.Pkg == nil || !g.inRepo(fn.Pkg.Pkg) || len(fn.Blocks) == 0 {
			continue
		}
		if fn.Name() == "memoizeDo" || strings.Contains(fn.Pkg.Pkg.Path(), "/memoize") || strings.Contains(fn.Pkg.Pkg.Path(), "/testing") {
			continue
		}
		pos := g.fset.Position(fn.Pos())
		if strings.HasSuffix(pos.Filename, "_test.go") {
			continue
		}
		ord := 0
		for _, b := range fn.Blocks {
			for _, in := range b.Instrs {
				ci, ok := in.(ssa.CallInstruction)
				if !ok {
					continue
				}
				cc := ci.Common()
				var keyV, fnV ssa.Value
				if callee := cc.StaticCallee(); callee != nil && callee.Name() == "memoizeDo" {
					n := len(cc.Args)
					keyV, fnV = cc.Args[n-2], cc.Args[n-1]
				} else if cc.IsInvoke() && cc.Method.Name() == "Do" && strings.HasSuffix(cc.Value.Type().String(), "Memoizer") {
					keyV, fnV = cc.Args[0], cc.Args[1]
				} else if callee := cc.StaticCallee(); callee != nil && callee.Name() == "Do" && callee.Pkg != nil && strings.HasSuffix(callee.Pkg.Pkg.Path(), "/memoize") {
					keyV, fnV = cc.Args[1], cc.Args[2]
				} else {
					continue
				}
				ord++
				s := &memoSite{fn: fn, call: ci, key: keyV, ord: ord}
				if mc, ok := fnV.(*ssa.MakeClosure); ok {
					s.closure = mc
				}
				if u := g.C.Units[key]; u != nil {
					s.unit = u
					s.class = u.MemoClass
				}
				sites = append(sites, s)
			}
		}
	}
	sort.Slice(sites, func(i, j int) bool {
		a, b := g.fnKey(sites[i].fn), g.fnKey(sites[j].fn)
		if a != b {
			return a < b
		}
		return sites[i].ord < sites[j].ord
	})
	return sites
}

func (s *memoSite) name(g *Global) string { return fmt.Sprintf("%s#%d", g.fnKey(s.fn), s.ord) }

// memoObligations builds the C13 cache-key obligations.
func (g *Global) memoObligations() []*Obligation {
	sites := g.findMemoSites()
	var obls []*Obligation
	mk := func(name, class, text, raw string, cover bool) *Obligation {
		return &Obligation{Name: name, Class: class, Text: text, Raw: raw, Fn: name}
	}
	for _, s := range sites {
		sn := s.name(g)
		if s.class == "" {
			obls = append(obls, mk(sn+"/memo-class/undeclared", "memo-class", "the enclosing function declares the value class of its cache keys (//@ memoize CLASS)", "(assert true)", false))
			continue
		}
		// key determines value: two copies of the leaves
		c1 := &termCtx{suffix: "!a", decls: map[string]string{}, memo: map[ssa.Value]string{}, fn: s.fn, g: g}
		c2 := &termCtx{suffix: "!b", decls: map[string]string{}, memo: map[ssa.Value]string{}, fn: s.fn, g: g}
		k1, k2 := c1.term(s.key, 0), c2.term(s.key, 0)
		var neqs []string
		if s.closure != nil {
			for _, in := range closureInputs(s.closure) {
				t1, t2 := in(c1), in(c2)
				if t1 != t2 {
					neqs = append(neqs, "(not (= "+t1+" "+t2+"))")
				}
			}
		}
		decls := map[string]string{}
		for k, v := range c1.decls {
			decls[k] = v
		}
		for k, v := range c2.decls {
			decls[k] = v
		}
		var ds []string
		for _, d := range decls {
			ds = append(ds, d)
		}
		sort.Strings(ds)
		goal := "false"
		if len(neqs) > 0 {
			goal = "(or " + strings.Join(neqs, " ") + ")"
		}
		raw := "(declare-sort U 0)\n" + strings.Join(ds, "\n") + "\n" + strings.Join(append(c1.extra, c2.extra...), "\n") + "\n(assert (= " + k1 + " " + k2 + "))\n(assert " + goal + ")\n"
		o := mk(sn+"/memo-keyval/"+s.class, "memo-keyval", "the cache key determines every input of the cached builder (class "+s.class+")", raw, false)
		o.Pos = g.fset.Position(s.call.Pos()).String()
		obls = append(obls, o)
	}
	// namespaces
	for i, a := range sites {
		for _, b := range sites[i+1:] {
			if a.class == "" || b.class == "" || a.class == b.class {
				continue
			}
			ca := &termCtx{suffix: "!a", decls: map[string]string{}, memo: map[ssa.Value]string{}, fn: a.fn, g: g}
			cb := &termCtx{suffix: "!b", decls: map[string]string{}, memo: map[ssa.Value]string{}, fn: b.fn, g: g}
			ka, kb := ca.term(a.key, 0), cb.term(b.key, 0)
			decls := map[string]string{}
			for k, v := range ca.decls {
				decls[k] = v
			}
			for k, v := range cb.decls {
				decls[k] = v
			}
			var ds []string
			for _, d := range decls {
				ds = append(ds, d)
			}
			sort.Strings(ds)
			raw := "(declare-sort U 0)\n" + strings.Join(ds, "\n") + "\n(assert (= " + ka + " " + kb + "))\n"
			o := mk(a.name(g)+"~"+b.name(g)+"/memo-ns/"+a.class+"~"+b.class, "memo-ns",
				"keys of class "+a.class+" and class "+b.class+" can never be equal", raw, false)
			o.Pos = g.fset.Position(a.call.Pos()).String()
			obls = append(obls, o)
		}
	}
	return obls
}

// closureInputs lists what the cached builder reads from its environment, as term builders:
// a captured variable contributes its value at the time of the call; a captured struct only the fields the
// closure body actually reads.
func closureInputs(mc *ssa.MakeClosure) []func(c *termCtx) string {
	fn := mc.Fn.(*ssa.Function)
	var ins []func(c *termCtx) string
	for i, b := range mc.Bindings {
		b := b
		fv := fn.FreeVars[i]
		pt, isPtr := fv.Type().Underlying().(*types.Pointer)
		if !isPtr {
			ins = append(ins, func(c *termCtx) string { return c.term(b, 0) })
			continue
		}
		if st, ok := pt.Elem().Underlying().(*types.Struct); ok {
			// which fields does the body read?
			fields := map[int]bool{}
			whole := false
			for _, ref := range *fv.Referrers() {
				if fa, ok := ref.(*ssa.FieldAddr); ok {
					fields[fa.Field] = true
				} else if _, isDbg := ref.(*ssa.DebugRef); !isDbg {
					whole = true
				}
			}
			if !whole {
				for f := range fields {
					f := f
					ft := st.Field(f).Type()
					ins = append(ins, func(c *termCtx) string {
						a := c.ufun("fieldaddr."+st.Field(f).Name(), []string{c.term(b, 0)}, []string{nsSort(b.Type())}, "U")
						return c.ufun("load."+nsSort(ft), []string{a}, []string{"U"}, nsSort(ft))
					})
				}
				continue
			}
		}
		if pp, ok := pt.Elem().Underlying().(*types.Pointer); ok {
			if st, ok := pp.Elem().Underlying().(*types.Struct); ok {
				fields := map[int]bool{}
				whole := false
				for _, ref := range *fv.Referrers() {
					if u, ok := ref.(*ssa.UnOp); ok && u.Op == token.MUL {
						for _, r2 := range *u.Referrers() {
							if fa, ok := r2.(*ssa.FieldAddr); ok {
								fields[fa.Field] = true
							} else if _, isDbg := r2.(*ssa.DebugRef); !isDbg {
								whole = true
							}
						}
					} else if _, isDbg := ref.(*ssa.DebugRef); !isDbg {
						whole = true
					}
				}
				if !whole {
					for f := range fields {
						f := f
						ft := st.Field(f).Type()
						ins = append(ins, func(c *termCtx) string {
							var obj string
							if al, ok := b.(*ssa.Alloc); ok {
								obj = ""
								for _, ref := range *al.Referrers() {
									if st2, ok := ref.(*ssa.Store); ok && st2.Addr == al {
										obj = c.term(st2.Val, 0)
									}
								}
							}
							if obj == "" {
								obj = c.ufun("load.U", []string{c.term(b, 0)}, []string{nsSort(b.Type())}, "U")
							}
							a := c.ufun("fieldaddr."+st.Field(f).Name(), []string{obj}, []string{"U"}, "U")
							return c.ufun("load."+nsSort(ft), []string{a}, []string{"U"}, nsSort(ft))
						})
					}
					continue
				}
			}
		}
		// a captured variable: its value when the builder runs
		elem := pt.Elem()
		ins = append(ins, func(c *termCtx) string {
			if al, ok := b.(*ssa.Alloc); ok {
				if t := c.cellTerm(al, 0); t != "" {
					return t
				}
			}
			return c.ufun("load."+nsSort(elem), []string{c.term(b, 0)}, []string{nsSort(b.Type())}, nsSort(elem))
		})
	}
	return ins
}
